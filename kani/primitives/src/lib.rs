//! Kani harnesses over the compiled real pallas-primitives crate (C08: language-view ordering).
#![allow(unused)]

#[cfg(kani)]
mod c08 {
    use pallas_codec::minicbor;
    use pallas_primitives::conway::LanguageViews;

    struct Sink(Vec<u8>);
    #[derive(Debug)]
    struct SinkErr;
    impl minicbor::encode::Write for Sink {
        type Error = SinkErr;
        fn write_all(&mut self, buf: &[u8]) -> Result<(), SinkErr> { self.0.extend_from_slice(buf); Ok(()) }
    }

    fn head(major: u8, v: u64, out: &mut Vec<u8>) {
        let m = major << 5;
        if v < 24 { out.push(m | v as u8); }
        else if v <= 0xff { out.push(m | 24); out.push(v as u8); }
        else if v <= 0xffff { out.push(m | 25); out.extend_from_slice(&(v as u16).to_be_bytes()); }
        else if v <= 0xffff_ffff { out.push(m | 26); out.extend_from_slice(&(v as u32).to_be_bytes()); }
        else { out.push(m | 27); out.extend_from_slice(&v.to_be_bytes()); }
    }
    fn int(v: i64, out: &mut Vec<u8>) { if v >= 0 { head(0, v as u64, out) } else { head(1, (-1 - v) as u64, out) } }

    fn any_model() -> Vec<i64> {
        let n: u8 = kani::any();
        kani::assume(n <= 2);
        let mut v = Vec::new();
        if n >= 1 { v.push(kani::any()); }
        if n >= 2 { v.push(kani::any()); }
        v
    }

    /// K-bounded(cost models of at most 2 coefficients, full i64 range; every subset of {V1, V2, V3}):
    /// the encoding is the ledger's canonical language-views map — keys 1 (V2) and 2 (V3) in that order with definite
    /// integer lists, then V1 with its key as the byte string 0x00 and its list as a byte string holding an indefinite list
    #[kani::proof]
    #[kani::unwind(6)]
    fn c08_language_views_canonical_order_bounded2() {
        let (h0, h1, h2): (bool, bool, bool) = (kani::any(), kani::any(), kani::any());
        let (m0, m1, m2) = (any_model(), any_model(), any_model());
        let mut entries = Vec::new();
        if h0 { entries.push((0u8, m0.clone())); }
        if h2 { entries.push((2u8, m2.clone())); }
        if h1 { entries.push((1u8, m1.clone())); }
        let lv: LanguageViews = entries.into_iter().collect();
        // (a writer with a non-Infallible error type: Kani 0.68 panics while compiling minicbor's Error::<Infallible>::write)
        let mut w = Sink(Vec::new());
        let ok = minicbor::encode(&lv, &mut w).is_ok();
        assert!(ok);
        let got = w.0;

        let mut want = Vec::new();
        head(5, h0 as u64 + h1 as u64 + h2 as u64, &mut want);
        if h1 { want.push(0x01); head(4, m1.len() as u64, &mut want); for v in &m1 { int(*v, &mut want); } }
        if h2 { want.push(0x02); head(4, m2.len() as u64, &mut want); for v in &m2 { int(*v, &mut want); } }
        if h0 {
            want.push(0x41); want.push(0x00);
            let mut inner = vec![0x9f];
            for v in &m0 { int(*v, &mut inner); }
            inner.push(0xff);
            head(2, inner.len() as u64, &mut want);
            want.extend_from_slice(&inner);
        }
        assert!(got == want, "language views are not in the ledger's canonical form");
    }
}
