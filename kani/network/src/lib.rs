//! Kani harnesses over the compiled real pallas-network crate.
#![allow(unused)]

#[cfg(kani)]
mod rollback_h {
    use pallas_network::miniprotocols::chainsync::RollbackBuffer;
    use pallas_network::miniprotocols::Point;

    /// points drawn from a 3-letter alphabet, identified by a code (no heap-allocated hashes and no model
    /// Vec<Point>, so CBMC stays small)
    fn mk(k: u8) -> Point {
        if k == 0 { Point::Origin } else { Point::Specific(k as u64, Vec::new()) }
    }
    fn code(p: &Point) -> u8 {
        match p { Point::Origin => 0, Point::Specific(s, _) => *s as u8 }
    }

    fn build(n: usize, model: &mut [u8; 4]) -> RollbackBuffer {
        let mut b = RollbackBuffer::new();
        let mut i = 0;
        while i < n {
            let k: u8 = kani::any();
            kani::assume(k < 3);
            model[i] = k;
            b.roll_forward(mk(k));
            i += 1;
        }
        b
    }

    /// K-bounded(len <= max, alphabet 3): the contract assumed for `position` in contracts/C26_rollback.vt
    /// holds on the real body (first index of the point, None iff absent).
    #[kani::proof]
    #[kani::unwind(6)]
    fn rollback_position_bounded4() { position_body(4) }
    #[kani::proof]
    #[kani::unwind(5)]
    fn rollback_position_bounded3() { position_body(3) }
    fn position_body(max: usize) {
        let n: usize = kani::any();
        kani::assume(n <= max);
        let mut model = [0u8; 4];
        let b = build(n, &mut model);
        let qk: u8 = kani::any();
        kani::assume(qk < 3);
        let q = mk(qk);
        let r = b.position(&q);
        match r {
            Some(i) => {
                assert!(i < n);
                assert!(model[i] == qk);
                let mut j = 0;
                while j < i { assert!(model[j] != qk); j += 1; }
            }
            None => {
                let mut j = 0;
                while j < n { assert!(model[j] != qk); j += 1; }
            }
        }
        kani::cover!(r == Some(2));
        kani::cover!(r.is_none() && n == max);
    }

    /// K-bounded(len <= max, alphabet 3 so that duplicates occur): roll_back against the list model — keep everything up
    /// to the FIRST occurrence of the point (Handled), or empty the buffer (OutOfScope).
    #[kani::proof]
    #[kani::unwind(5)]
    fn rollback_roll_back_bounded3() { roll_back_body(3) }
    #[kani::proof]
    #[kani::unwind(6)]
    fn rollback_roll_back_bounded4() { roll_back_body(4) }
    fn roll_back_body(max: usize) {
        use pallas_network::miniprotocols::chainsync::RollbackEffect;
        let n: usize = kani::any();
        kani::assume(n <= max);
        let mut model = [0u8; 4];
        let mut b = build(n, &mut model);
        let qk: u8 = kani::any();
        kani::assume(qk < 3);
        let q = mk(qk);
        let mut first = n;
        let mut j = n;
        while j > 0 { j -= 1; if model[j] == qk { first = j; } }
        let eff = b.roll_back(&q);
        if first < n {
            assert!(matches!(eff, RollbackEffect::Handled));
            assert!(b.size() == first + 1, "roll_back must keep exactly the prefix up to the first occurrence");
            assert!(code(b.latest().unwrap()) == qk);
        } else {
            assert!(matches!(eff, RollbackEffect::OutOfScope));
            assert!(b.size() == 0);
        }
        kani::cover!(first + 1 < n);
        kani::cover!(first == n && n == max);
    }

    /// K-bounded(len <= max): the contract assumed for `pop_with_depth` holds on the real body.
    #[kani::proof]
    #[kani::unwind(6)]
    fn rollback_pop_bounded4() { pop_body(4) }
    #[kani::proof]
    #[kani::unwind(5)]
    fn rollback_pop_bounded3() { pop_body(3) }
    #[kani::proof]
    #[kani::unwind(4)]
    fn rollback_pop_bounded2() { pop_body(2) }
    fn pop_body(max: usize) {
        let n: usize = kani::any();
        kani::assume(n <= max);
        let d: usize = kani::any();
        kani::assume(d <= max + 2);
        let mut model = [0u8; 4];
        let mut b = build(n, &mut model);
        let out = b.pop_with_depth(d);
        if n >= d {
            assert!(out.len() == n - d);
            let mut j = 0;
            while j < n - d { assert!(code(&out[j]) == model[j]); j += 1; }
            assert!(b.size() == d);
            // the remainder starts at model[n-d] and ends at model[n-1] (observed through the public API)
            if d > 0 {
                assert!(code(b.oldest().unwrap()) == model[n - d]);
                assert!(code(b.latest().unwrap()) == model[n - 1]);
            }
        } else {
            assert!(out.is_empty());
            assert!(b.size() == n);
        }
        kani::cover!(out.len() == max - 1);
        kani::cover!(n < d);
    }
}
