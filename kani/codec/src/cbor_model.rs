// The executable model of CBOR heads (RFC 8949 §3) that links the two sides of the trusted minicbor interface:
//  * Verus (contracts/_minicbor_stub.inc) extracts these functions verbatim and proves them equal to the specification
//    functions `head_at` / `head_enc` / `type_of_head` the stub's contracts are written in;
//  * Kani (this crate, mod minicbor_model) runs them against the REAL minicbor 0.26 readers and writers on every buffer the
//    harness bound admits.
// Plain Rust inside the Verus subset; no dependencies.

/// the CBOR head at position p: (major type 0..7, additional info 0..31, argument, position after the head).
/// info 28..30 is reserved (None); info 31 (indefinite length / break) has argument 0.
pub fn head_at_exec(i: &[u8], p: usize) -> Option<(u8, u8, u64, usize)> {
    if p >= i.len() {
        return None;
    }
    let b = i[p];
    let major = b / 32;
    let info = b % 32;
    let room = i.len() - p;
    if info <= 23 {
        Some((major, info, info as u64, p + 1))
    } else if info == 24 {
        if room < 2 {
            None
        } else {
            Some((major, info, i[p + 1] as u64, p + 2))
        }
    } else if info == 25 {
        if room < 3 {
            None
        } else {
            Some((major, info, (i[p + 1] as u64) * 256 + (i[p + 2] as u64), p + 3))
        }
    } else if info == 26 {
        if room < 5 {
            None
        } else {
            Some((
                major,
                info,
                (i[p + 1] as u64) * 16777216 + (i[p + 2] as u64) * 65536 + (i[p + 3] as u64) * 256 + (i[p + 4] as u64),
                p + 5,
            ))
        }
    } else if info == 27 {
        if room < 9 {
            None
        } else {
            Some((
                major,
                info,
                (i[p + 1] as u64) * 72057594037927936
                    + (i[p + 2] as u64) * 281474976710656
                    + (i[p + 3] as u64) * 1099511627776
                    + (i[p + 4] as u64) * 4294967296
                    + (i[p + 5] as u64) * 16777216
                    + (i[p + 6] as u64) * 65536
                    + (i[p + 7] as u64) * 256
                    + (i[p + 8] as u64),
                p + 9,
            ))
        }
    } else if info == 31 {
        Some((major, info, 0, p + 1))
    } else {
        None
    }
}

/// the shortest head for (major, v): the bytes (left-aligned in a 9-byte array) and their number
pub fn head_enc_exec(major: u8, v: u64) -> ([u8; 9], usize) {
    let mut o = [0u8; 9];
    let m = major * 32;
    if v <= 23 {
        o[0] = m + (v as u8);
        (o, 1)
    } else if v <= 255 {
        o[0] = m + 24;
        o[1] = v as u8;
        (o, 2)
    } else if v <= 65535 {
        o[0] = m + 25;
        o[1] = (v / 256) as u8;
        o[2] = (v % 256) as u8;
        (o, 3)
    } else if v <= 4294967295 {
        o[0] = m + 26;
        o[1] = (v / 16777216) as u8;
        o[2] = (v / 65536 % 256) as u8;
        o[3] = (v / 256 % 256) as u8;
        o[4] = (v % 256) as u8;
        (o, 5)
    } else {
        o[0] = m + 27;
        o[1] = (v / 72057594037927936) as u8;
        o[2] = (v / 281474976710656 % 256) as u8;
        o[3] = (v / 1099511627776 % 256) as u8;
        o[4] = (v / 4294967296 % 256) as u8;
        o[5] = (v / 16777216 % 256) as u8;
        o[6] = (v / 65536 % 256) as u8;
        o[7] = (v / 256 % 256) as u8;
        o[8] = (v % 256) as u8;
        (o, 9)
    }
}

/// minicbor's classification of a head byte, as a code: only the classes the wrappers under proof distinguish
/// 0 = U8, 1 = U16, 2 = U32, 3 = U64, 4 = Bytes, 5 = Array, 6 = ArrayIndef, 7 = Map, 8 = MapIndef, 9 = Tag, 10 = Null,
/// 11 = Undefined, 12 = Break, 255 = anything else
pub fn type_code_exec(b: u8) -> u8 {
    if b <= 0x18 {
        0
    } else if b == 0x19 {
        1
    } else if b == 0x1a {
        2
    } else if b == 0x1b {
        3
    } else if 0x40 <= b && b <= 0x5b {
        4
    } else if 0x80 <= b && b <= 0x9b {
        5
    } else if b == 0x9f {
        6
    } else if 0xa0 <= b && b <= 0xbb {
        7
    } else if b == 0xbf {
        8
    } else if 0xc0 <= b && b <= 0xdb {
        9
    } else if b == 0xf6 {
        10
    } else if b == 0xf7 {
        11
    } else if b == 0xff {
        12
    } else {
        255
    }
}
