//! Kani harnesses over the compiled real pallas-codec crate.
#![allow(unused)]

#[cfg(kani)]
mod c04 {
    use pallas_codec::minicbor;
    use pallas_codec::utils::{NonZeroInt, PositiveCoin};

    /// K-complete: a CBOR integer head is at most 9 bytes and minicbor::decode ignores trailing bytes, so
    /// every input is covered by its first 9 bytes. Contract (from C04): decoding never yields a wrapper holding 0.
    #[kani::proof]
    #[kani::unwind(12)]
    fn c04_positive_coin_decode_never_zero() {
        let bytes: [u8; 9] = kani::any();
        let r: Result<PositiveCoin, _> = minicbor::decode(&bytes);
        if let Ok(c) = r {
            assert!(u64::from(c) != 0, "decoded PositiveCoin holds zero");
        }
        kani::cover!(r.is_ok());
        kani::cover!(r.is_err());
    }

    #[kani::proof]
    #[kani::unwind(12)]
    fn c04_nonzero_int_decode_never_zero() {
        let bytes: [u8; 9] = kani::any();
        let r: Result<NonZeroInt, _> = minicbor::decode(&bytes);
        if let Ok(c) = r {
            assert!(i64::from(c) != 0, "decoded NonZeroInt holds zero");
        }
        kani::cover!(r.is_ok());
        kani::cover!(r.is_err());
    }

    /// checked constructors agree with the invariant (loop-free, full domain)
    #[kani::proof]
    fn c04_try_from_rejects_exactly_zero() {
        let v: u64 = kani::any();
        let r = PositiveCoin::try_from(v);
        assert!(r.is_ok() == (v != 0));
        if let Ok(c) = r { assert!(u64::from(c) == v); }
        let w: i64 = kani::any();
        let s = NonZeroInt::try_from(w);
        assert!(s.is_ok() == (w != 0));
        if let Ok(c) = s { assert!(i64::from(c) == w); }
    }
}
