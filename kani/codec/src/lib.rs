//! Kani harnesses over the compiled real pallas-codec crate.
#![allow(unused)]

#[cfg(kani)]
mod c04 {
    use pallas_codec::minicbor;
    use pallas_codec::utils::{NonZeroInt, PositiveCoin};

    /// K-complete: a CBOR integer head is at most 9 bytes and minicbor::decode ignores trailing bytes, so
    /// every input is covered by its first 9 bytes. Contract (from C04): decoding never yields a wrapper holding 0.
    #[kani::proof]
    #[kani::unwind(12)]
    fn c04_positive_coin_decode_never_zero() {
        let bytes: [u8; 9] = kani::any();
        let r: Result<PositiveCoin, _> = minicbor::decode(&bytes);
        if let Ok(c) = r {
            assert!(u64::from(c) != 0, "decoded PositiveCoin holds zero");
        }
        kani::cover!(r.is_ok());
        kani::cover!(r.is_err());
    }

    #[kani::proof]
    #[kani::unwind(12)]
    fn c04_nonzero_int_decode_never_zero() {
        let bytes: [u8; 9] = kani::any();
        let r: Result<NonZeroInt, _> = minicbor::decode(&bytes);
        if let Ok(c) = r {
            assert!(i64::from(c) != 0, "decoded NonZeroInt holds zero");
        }
        kani::cover!(r.is_ok());
        kani::cover!(r.is_err());
    }

    /// checked constructors agree with the invariant (loop-free, full domain)
    #[kani::proof]
    fn c04_try_from_rejects_exactly_zero() {
        let v: u64 = kani::any();
        let r = PositiveCoin::try_from(v);
        assert!(r.is_ok() == (v != 0));
        if let Ok(c) = r { assert!(u64::from(c) == v); }
        let w: i64 = kani::any();
        let s = NonZeroInt::try_from(w);
        assert!(s.is_ok() == (w != 0));
        if let Ok(c) = s { assert!(i64::from(c) == w); }
    }
}

#[cfg(kani)]
mod c03 {
    use pallas_codec::minicbor;
    use pallas_codec::utils::AnyUInt;

    /// K-complete: every byte string (a CBOR unsigned head is at most 9 bytes) that decodes as AnyUInt re-encodes
    /// to exactly the bytes that were consumed (including non-minimal heads).
    #[kani::proof]
    #[kani::unwind(12)]
    fn c03_anyuint_reencodes_consumed_bytes() {
        let bytes: [u8; 9] = kani::any();
        let mut d = minicbor::Decoder::new(&bytes);
        let r: Result<AnyUInt, _> = d.decode();
        if let Ok(v) = r {
            let n = d.position();
            assert!(n >= 1 && n <= 9);
            let mut out = [0u8; 9];
            let mut cur = minicbor::encode::write::Cursor::new(&mut out[..]);
            minicbor::encode(&v, &mut cur).unwrap();
            let m = cur.position();
            assert!(m == n, "re-encoding has a different length than the bytes consumed");
            let mut i = 0;
            while i < 9 {
                if i < n { assert!(cur.get_ref()[i] == bytes[i], "re-encoding differs from the bytes consumed"); }
                i += 1;
            }
        }
        kani::cover!(r.is_ok() && d.position() == 9);
        kani::cover!(r.is_ok() && d.position() == 2);
    }

    /// K-complete (loop-free value domain): decode(encode(v)) == v for every AnyUInt whose MajorByte payload is a
    /// real major-type-0 immediate (< 24)
    #[kani::proof]
    #[kani::unwind(12)]
    fn c03_anyuint_value_roundtrip() {
        let k: u8 = kani::any();
        let x: u64 = kani::any();
        let v = match k % 5 {
            0 => { kani::assume(x < 24); AnyUInt::MajorByte(x as u8) }
            1 => AnyUInt::U8(x as u8),
            2 => AnyUInt::U16(x as u16),
            3 => AnyUInt::U32(x as u32),
            _ => AnyUInt::U64(x),
        };
        let mut out = [0u8; 9];
        let mut cur = minicbor::encode::write::Cursor::new(&mut out[..]);
        minicbor::encode(&v, &mut cur).unwrap();
        let n = cur.position();
        let back: AnyUInt = minicbor::decode(&out[..n]).unwrap();
        assert!(back == v, "decode(encode(v)) != v");
    }
}

#[cfg(kani)]
mod c01 {
    use pallas_codec::flat::en::Encoder;

    /// reference: length-prefixed blocks of at most 255 bytes, terminated by a zero length
    fn blk(a: &[u8]) -> Vec<u8> {
        let mut out = Vec::new();
        let mut i = 0;
        while i < a.len() {
            let n = core::cmp::min(255, a.len() - i);
            out.push(n as u8);
            out.extend_from_slice(&a[i..i + n]);
            i += n;
        }
        out.push(0);
        out
    }

    /// K-bounded(lengths 0, 1, 254, 255, 256, 511 with symbolic contents): Encoder::write_blk — reached through the public
    /// byte_array — appends exactly the block form the Verus unit assumes for it (the function iterates `chunks(255)`, which
    /// Verus cannot ingest). Bounded stand-in for that one assumed contract; never counted as proved.
    fn check(len: usize) {
        let data: Vec<u8> = (0..len).map(|_| kani::any::<u8>()).collect();
        let mut e = Encoder::new();
        let ok = e.byte_array(&data).is_ok();
        assert!(ok);
        assert!(e.buffer == blk(&data), "write_blk does not produce the block form");
    }
    #[kani::proof]
    #[kani::unwind(8)]
    fn c01_write_blk_small_bounded() { check(0); check(1); check(2); }
    #[kani::proof]
    #[kani::unwind(300)]
    fn c01_write_blk_boundary_bounded() { check(255); check(256); }
}
