//! Kani harnesses over the compiled real pallas-codec crate.
#![allow(unused)]

#[cfg(kani)]
mod c04 {
    use pallas_codec::minicbor;
    use pallas_codec::utils::{NonZeroInt, PositiveCoin};

    /// K-complete: a CBOR integer head is at most 9 bytes and minicbor::decode ignores trailing bytes, so
    /// every input is covered by its first 9 bytes. Contract (from C04): decoding never yields a wrapper holding 0.
    #[kani::proof]
    #[kani::unwind(12)]
    fn c04_positive_coin_decode_never_zero() {
        let bytes: [u8; 9] = kani::any();
        let r: Result<PositiveCoin, _> = minicbor::decode(&bytes);
        if let Ok(c) = r {
            assert!(u64::from(c) != 0, "decoded PositiveCoin holds zero");
        }
        kani::cover!(r.is_ok());
        kani::cover!(r.is_err());
    }

    #[kani::proof]
    #[kani::unwind(12)]
    fn c04_nonzero_int_decode_never_zero() {
        let bytes: [u8; 9] = kani::any();
        let r: Result<NonZeroInt, _> = minicbor::decode(&bytes);
        if let Ok(c) = r {
            assert!(i64::from(c) != 0, "decoded NonZeroInt holds zero");
        }
        kani::cover!(r.is_ok());
        kani::cover!(r.is_err());
    }

    /// checked constructors agree with the invariant (loop-free, full domain)
    #[kani::proof]
    fn c04_try_from_rejects_exactly_zero() {
        let v: u64 = kani::any();
        let r = PositiveCoin::try_from(v);
        assert!(r.is_ok() == (v != 0));
        if let Ok(c) = r { assert!(u64::from(c) == v); }
        let w: i64 = kani::any();
        let s = NonZeroInt::try_from(w);
        assert!(s.is_ok() == (w != 0));
        if let Ok(c) = s { assert!(i64::from(c) == w); }
    }
}

#[cfg(kani)]
mod c03 {
    use pallas_codec::minicbor;
    use pallas_codec::utils::AnyUInt;

    /// K-complete: every byte string (a CBOR unsigned head is at most 9 bytes) that decodes as AnyUInt re-encodes
    /// to exactly the bytes that were consumed (including non-minimal heads).
    #[kani::proof]
    #[kani::unwind(12)]
    fn c03_anyuint_reencodes_consumed_bytes() {
        let bytes: [u8; 9] = kani::any();
        let mut d = minicbor::Decoder::new(&bytes);
        let r: Result<AnyUInt, _> = d.decode();
        if let Ok(v) = r {
            let n = d.position();
            assert!(n >= 1 && n <= 9);
            let mut out = [0u8; 9];
            let mut cur = minicbor::encode::write::Cursor::new(&mut out[..]);
            minicbor::encode(&v, &mut cur).unwrap();
            let m = cur.position();
            assert!(m == n, "re-encoding has a different length than the bytes consumed");
            let mut i = 0;
            while i < 9 {
                if i < n { assert!(cur.get_ref()[i] == bytes[i], "re-encoding differs from the bytes consumed"); }
                i += 1;
            }
        }
        kani::cover!(r.is_ok() && d.position() == 9);
        kani::cover!(r.is_ok() && d.position() == 2);
    }

    /// K-complete (loop-free value domain): decode(encode(v)) == v for every AnyUInt whose MajorByte payload is a
    /// real major-type-0 immediate (< 24)
    #[kani::proof]
    #[kani::unwind(12)]
    fn c03_anyuint_value_roundtrip() {
        let k: u8 = kani::any();
        let x: u64 = kani::any();
        let v = match k % 5 {
            0 => { kani::assume(x < 24); AnyUInt::MajorByte(x as u8) }
            1 => AnyUInt::U8(x as u8),
            2 => AnyUInt::U16(x as u16),
            3 => AnyUInt::U32(x as u32),
            _ => AnyUInt::U64(x),
        };
        let mut out = [0u8; 9];
        let mut cur = minicbor::encode::write::Cursor::new(&mut out[..]);
        minicbor::encode(&v, &mut cur).unwrap();
        let n = cur.position();
        let back: AnyUInt = minicbor::decode(&out[..n]).unwrap();
        assert!(back == v, "decode(encode(v)) != v");
    }
}

#[cfg(kani)]
mod c01 {
    use pallas_codec::flat::en::Encoder;

    /// reference: length-prefixed blocks of at most 255 bytes, terminated by a zero length
    fn blk(a: &[u8]) -> Vec<u8> {
        let mut out = Vec::new();
        let mut i = 0;
        while i < a.len() {
            let n = core::cmp::min(255, a.len() - i);
            out.push(n as u8);
            out.extend_from_slice(&a[i..i + n]);
            i += n;
        }
        out.push(0);
        out
    }

    /// K-bounded(lengths 0, 1, 254, 255, 256, 511 with symbolic contents): Encoder::write_blk — reached through the public
    /// byte_array — appends exactly the block form the Verus unit assumes for it (the function iterates `chunks(255)`, which
    /// Verus cannot ingest). Bounded stand-in for that one assumed contract; never counted as proved.
    fn check(len: usize) {
        let data: Vec<u8> = (0..len).map(|_| kani::any::<u8>()).collect();
        let mut e = Encoder::new();
        let ok = e.byte_array(&data).is_ok();
        assert!(ok);
        assert!(e.buffer == blk(&data), "write_blk does not produce the block form");
    }
    #[kani::proof]
    #[kani::unwind(8)]
    fn c01_write_blk_small_bounded() { check(0); check(1); check(2); }
    #[kani::proof]
    #[kani::unwind(300)]
    fn c01_write_blk_boundary_bounded() { check(255); check(256); }
}

#[cfg(kani)]
#[path = "cbor_model.rs"]
mod cbor_model;

/// The minicbor interface the Verus units ASSUME (contracts/_minicbor_stub.inc) checked against the real minicbor 0.26:
/// every reader/writer the wrappers under proof call is compared with the executable head model (`cbor_model.rs`, which
/// Verus proves equal to the specification functions the stub contracts are written in).
/// Bound: buffers of at most 11 bytes, cursor at 0, 1 or 2. The readers are loop-free and touch at most 9 bytes from the cursor.
#[cfg(kani)]
mod minicbor_model {
    use super::cbor_model::{head_at_exec, head_enc_exec, type_code_exec};
    use pallas_codec::minicbor::{self, data::{Tag, Type}};

    const N: usize = 11;
    fn input() -> ([u8; N], usize, usize) {
        let buf: [u8; N] = kani::any();
        let len: usize = kani::any();
        let p: usize = kani::any();
        kani::assume(len <= N && p <= 2 && p <= len);
        (buf, len, p)
    }
    /// the unsigned argument a reader of `major` limited to `max` must return: Ok((value, next position)) or an error
    fn expect_arg(i: &[u8], p: usize, major: u8, max: u64) -> Option<(u64, usize)> {
        match head_at_exec(i, p) {
            Some((m, info, v, n)) if m == major && info <= 27 && v <= max => Some((v, n)),
            _ => None,
        }
    }

    #[kani::proof]
    fn stub_decoder_unsigned_readers() {
        let (buf, len, p) = input();
        let i = &buf[..len];
        let which: u8 = kani::any();
        let mut d = minicbor::Decoder::new(i);
        d.set_position(p);
        let (got, max): (Option<u64>, u64) = match which % 4 {
            0 => (d.u8().ok().map(u64::from), u8::MAX as u64),
            1 => (d.u16().ok().map(u64::from), u16::MAX as u64),
            2 => (d.u32().ok().map(u64::from), u32::MAX as u64),
            _ => (d.u64().ok(), u64::MAX),
        };
        match expect_arg(i, p, 0, max) {
            Some((v, n)) => { assert!(got == Some(v)); assert!(d.position() == n); }
            None => { assert!(got.is_none()); assert!(d.position() >= p); }
        }
    }

    #[kani::proof]
    fn stub_decoder_array_map_tag() {
        let (buf, len, p) = input();
        let i = &buf[..len];
        let which: u8 = kani::any();
        let mut d = minicbor::Decoder::new(i);
        d.set_position(p);
        let h = head_at_exec(i, p);
        match which % 3 {
            0 | 1 => {
                let major = if which % 3 == 0 { 4 } else { 5 };
                let got = if which % 3 == 0 { d.array() } else { d.map() };
                match h {
                    Some((m, 31, _, n)) if m == major => { assert!(matches!(got, Ok(None))); assert!(d.position() == n); }
                    Some((m, info, v, n)) if m == major && info <= 27 => { assert!(matches!(got, Ok(Some(x)) if x == v)); assert!(d.position() == n); }
                    _ => { assert!(got.is_err()); assert!(d.position() >= p); }
                }
            }
            _ => {
                let got = d.tag();
                match h {
                    Some((6, info, v, n)) if info <= 27 => { assert!(matches!(got, Ok(t) if t == Tag::new(v))); assert!(d.position() == n); }
                    _ => { assert!(got.is_err()); assert!(d.position() >= p); }
                }
            }
        }
    }

    #[kani::proof]
    fn stub_decoder_datatype_null_undefined() {
        let (buf, len, p) = input();
        let i = &buf[..len];
        let mut d = minicbor::Decoder::new(i);
        d.set_position(p);
        let dt = d.datatype();
        let datatype_ok = p < len && (!(0x38 <= i[p] && i[p] <= 0x3b) || p + 1 < len);
        assert!(dt.is_ok() == datatype_ok);
        match dt {
            Ok(t) => {
                assert!(p < len);
                let code = type_code_exec(i[p]);
                let expect = match t {
                    Type::U8 => 0, Type::U16 => 1, Type::U32 => 2, Type::U64 => 3, Type::Bytes => 4, Type::Array => 5, Type::ArrayIndef => 6,
                    Type::Map => 7, Type::MapIndef => 8, Type::Tag => 9, Type::Null => 10, Type::Undefined => 11, Type::Break => 12, _ => 255,
                };
                assert!(code == expect);
            }
            Err(_) => {}
        }
        assert!(d.position() == p);
        let which: bool = kani::any();
        let byte = if which { 0xf6u8 } else { 0xf7u8 };
        let got = if which { d.null() } else { d.undefined() };
        if p < len && i[p] == byte { assert!(got.is_ok()); assert!(d.position() == p + 1); }
        else { assert!(got.is_err()); assert!(d.position() >= p); }
    }

    #[kani::proof]
    #[kani::unwind(13)]
    fn stub_decoder_bytes() {
        let (buf, len, p) = input();
        let i = &buf[..len];
        let mut d = minicbor::Decoder::new(i);
        d.set_position(p);
        let got = d.bytes();
        match head_at_exec(i, p) {
            Some((2, info, v, n)) if info <= 27 && v <= (len - n) as u64 => {
                let b: &[u8] = match got { Ok(b) => b, Err(_) => { assert!(false, "complete definite byte string rejected"); return; } };
                assert!(b.len() == v as usize);
                let mut j = 0;
                while j < N { if j < b.len() { assert!(b[j] == i[n + j]); } j += 1; }
                assert!(d.position() == n + v as usize);
            }
            _ => { assert!(got.is_err()); assert!(d.position() >= p); }
        }
    }

    #[kani::proof]
    #[kani::unwind(11)]
    fn stub_encoder_heads() {
        let v: u64 = kani::any();
        let which: u8 = kani::any();
        let mut out = [0u8; 10];
        let mut e = minicbor::Encoder::new(minicbor::encode::write::Cursor::new(&mut out[..]));
        let (major, val): (u8, u64) = match which % 8 {
            0 => { e.u8(v as u8).unwrap(); (0, v as u8 as u64) }
            1 => { e.u16(v as u16).unwrap(); (0, v as u16 as u64) }
            2 => { e.u32(v as u32).unwrap(); (0, v as u32 as u64) }
            3 => { e.u64(v).unwrap(); (0, v) }
            4 => { e.array(v).unwrap(); (4, v) }
            5 => { e.map(v).unwrap(); (5, v) }
            6 => { e.tag(Tag::new(v)).unwrap(); (6, v) }
            _ => { let n = (v % 4) as usize; e.bytes(&[7u8; 3][..n]).unwrap(); (2, n as u64) }
        };
        let (model, k) = head_enc_exec(major, val);
        let cur = e.into_writer();
        let extra = if which % 8 == 7 { val as usize } else { 0 };
        assert!(cur.position() == k + extra);
        let mut j = 0;
        while j < 9 { if j < k { assert!(cur.get_ref()[j] == model[j]); } j += 1; }
    }

    #[kani::proof]
    fn stub_encoder_markers() {
        let which: u8 = kani::any();
        let mut out = [0u8; 2];
        let mut e = minicbor::Encoder::new(minicbor::encode::write::Cursor::new(&mut out[..]));
        let byte = match which % 5 {
            0 => { e.begin_array().unwrap(); 0x9fu8 }
            1 => { e.begin_map().unwrap(); 0xbf }
            2 => { e.end().unwrap(); 0xff }
            3 => { e.null().unwrap(); 0xf6 }
            _ => { e.undefined().unwrap(); 0xf7 }
        };
        let cur = e.into_writer();
        assert!(cur.position() == 1 && cur.get_ref()[0] == byte);
    }

    /// minicbor's own `impl Encode / Decode for u8, u16, u32, u64` are its head writers / readers (stub: axiom_primitive_codecs)
    #[kani::proof]
    #[kani::unwind(11)]
    fn stub_primitive_codecs() {
        let v: u64 = kani::any();
        let which: u8 = kani::any();
        let mut out = [0u8; 10];
        let mut cur = minicbor::encode::write::Cursor::new(&mut out[..]);
        let val: u64 = match which % 4 {
            0 => { if minicbor::encode(&(v as u8), &mut cur).is_err() { assert!(false); } v as u8 as u64 }
            1 => { if minicbor::encode(&(v as u16), &mut cur).is_err() { assert!(false); } v as u16 as u64 }
            2 => { if minicbor::encode(&(v as u32), &mut cur).is_err() { assert!(false); } v as u32 as u64 }
            _ => { if minicbor::encode(&v, &mut cur).is_err() { assert!(false); } v }
        };
        let (model, k) = head_enc_exec(0, val);
        assert!(cur.position() == k);
        let mut j = 0;
        while j < 9 { if j < k { assert!(cur.get_ref()[j] == model[j]); } j += 1; }
        // decoding side: `decode::<uN>` is the uN reader
        let (buf, len, _) = input();
        let i = &buf[..len];
        let max: u64 = match which % 4 { 0 => u8::MAX as u64, 1 => u16::MAX as u64, 2 => u32::MAX as u64, _ => u64::MAX };
        let got: Option<u64> = match which % 4 {
            0 => minicbor::decode::<u8>(i).ok().map(u64::from), 1 => minicbor::decode::<u16>(i).ok().map(u64::from),
            2 => minicbor::decode::<u32>(i).ok().map(u64::from), _ => minicbor::decode::<u64>(i).ok(),
        };
        match expect_arg(i, 0, 0, max) { Some((x, _)) => assert!(got == Some(x)), None => assert!(got.is_none()) }
    }

    /// the model is self-consistent: reading back a written head yields the same (major, value) — executed, not assumed
    #[kani::proof]
    fn model_head_roundtrip() {
        let v: u64 = kani::any();
        let major: u8 = kani::any();
        kani::assume(major < 8);
        let (o, k) = head_enc_exec(major, v);
        assert!(matches!(head_at_exec(&o[..k], 0), Some((m, info, x, n)) if m == major && info <= 27 && x == v && n == k));
    }
}

/// Bounded stand-in for C02 (fallback for the Verus unit C02_flat_decoder): the real flat decoder's word-based readers on every
/// buffer of at most 13 bytes, after 0..7 single-bit reads: no panic (Kani checks arithmetic overflow, shift overflow, indexing),
/// every result is Ok or Err.
#[cfg(kani)]
mod c02 {
    use pallas_codec::flat::de::Decoder;

    #[kani::proof]
    #[kani::unwind(16)]
    fn c02_word_readers_total_bounded() {
        let buf: [u8; 13] = kani::any();
        let len: usize = kani::any();
        let pre: u8 = kani::any();
        let which: u8 = kani::any();
        kani::assume(len <= 13 && pre < 8);
        let mut d = Decoder::new(&buf[..len]);
        let mut k = 0u8;
        while k < 8 { if k < pre { let _ = d.bool(); } k += 1; }
        match which % 3 {
            0 => { let _ = d.word(); }
            1 => { let _ = d.integer(); }
            _ => { let _ = d.char(); }
        }
    }
}
