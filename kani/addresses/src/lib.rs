//! Kani harnesses over the compiled real pallas-addresses crate (C18).
//! They execute what the Verus unit treats as assumed std interfaces (io::Cursor, slice::reverse, slice::concat).
#![allow(unused)]

#[cfg(kani)]
mod c18 {
    use pallas_addresses::*;
    use pallas_crypto::hash::Hash;
    use std::io::Cursor;

    /// K-complete: every u64 written by varuint::write is read back by varuint::read, consuming exactly what was
    /// written (loops bounded by the operand width: at most 10 groups; unwinding assertions on).
    #[kani::proof]
    #[kani::unwind(12)]
    fn c18_varuint_roundtrip_all_u64() {
        let n: u64 = kani::any();
        let mut w = Cursor::new(Vec::new());
        varuint::write(&mut w, n);
        let bytes = w.into_inner();
        assert!(bytes.len() >= 1 && bytes.len() <= 10);
        let mut r = Cursor::new(bytes.as_slice());
        let got = varuint::read(&mut r);
        assert!(matches!(got, Ok(v) if v == n), "varuint did not round-trip");
        assert!(r.position() as usize == bytes.len(), "reader did not stop right behind the number");
        kani::cover!(bytes.len() == 10);
        kani::cover!(bytes.len() == 1);
    }

    fn any_network() -> Network {
        let id: u8 = kani::any();
        kani::assume(id < 16);
        Network::from(id)
    }

    /// K-complete over the hash-carrying shapes: types 0-3, 6, 7 x network 0..15 x symbolic 28-byte hashes
    #[kani::proof]
    #[kani::unwind(60)]
    fn c18_shelley_hash_shapes_roundtrip() {
        let net = any_network();
        let h1: [u8; 28] = kani::any();
        let h2: [u8; 28] = kani::any();
        let pay = if kani::any() { ShelleyPaymentPart::key_hash(Hash::from(h1)) } else { ShelleyPaymentPart::script_hash(Hash::from(h1)) };
        let k: u8 = kani::any();
        kani::assume(k < 3);
        let del = match k {
            0 => ShelleyDelegationPart::key_hash(Hash::from(h2)),
            1 => ShelleyDelegationPart::script_hash(Hash::from(h2)),
            _ => ShelleyDelegationPart::Null,
        };
        let a = ShelleyAddress::new(net, pay, del);
        let header = a.to_header();
        assert!(header >> 4 == a.typeid() && header & 0x0f == net.value());
        let v = a.to_vec();
        let back = Address::from_bytes(&v);
        assert!(matches!(back, Ok(Address::Shelley(ref b)) if *b == a), "Shelley address did not round-trip");
    }

    #[kani::proof]
    #[kani::unwind(40)]
    fn c18_stake_roundtrip() {
        let net = any_network();
        let h1: [u8; 28] = kani::any();
        let mut raw = vec![if kani::any() { 0xe0u8 } else { 0xf0u8 } | net.value()];
        raw.extend_from_slice(&h1);
        let a = Address::from_bytes(&raw);
        match a {
            Ok(Address::Stake(s)) => {
                assert!(s.to_header() == raw[0] && s.network() == net);
                assert!(s.to_vec() == raw, "stake address did not re-encode to its bytes");
            }
            _ => assert!(false, "stake address rejected"),
        }
    }

    /// K-complete (thorough tier): pointer addresses with three full-range u64 components
    #[kani::proof]
    #[kani::unwind(60)]
    fn c18_pointer_roundtrip() {
        let net = any_network();
        let h1: [u8; 28] = kani::any();
        let p = Pointer::new(kani::any(), kani::any(), kani::any());
        let pay = if kani::any() { ShelleyPaymentPart::key_hash(Hash::from(h1)) } else { ShelleyPaymentPart::script_hash(Hash::from(h1)) };
        let a = ShelleyAddress::new(net, pay, ShelleyDelegationPart::Pointer(p));
        let v = a.to_vec();
        let back = Address::from_bytes(&v);
        assert!(matches!(back, Ok(Address::Shelley(ref b)) if *b == a), "pointer address did not round-trip");
    }
}
