//! Kani harnesses over the compiled real pallas-crypto crate.
#![allow(unused)]

#[cfg(kani)]
mod memsec_h {
    use pallas_crypto::memsec::{memcmp, memeq};

    /// K-bounded(len <= 4): the real `unsafe` pointer code (what extraction rule R4 dropped) agrees with
    /// ordinary slice comparison, with CBMC's pointer checks on.
    #[kani::proof]
    #[kani::unwind(6)]
    fn memsec_ptr_bounded4() {
        let a: [u8; 4] = kani::any();
        let b: [u8; 4] = kani::any();
        let len: usize = kani::any();
        kani::assume(len >= 1 && len <= 4);
        let eq = unsafe { memeq(a.as_ptr(), b.as_ptr(), len) };
        let ord = unsafe { memcmp(a.as_ptr(), b.as_ptr(), len) };
        assert_eq!(eq, a[..len] == b[..len]);
        assert_eq!(ord, a[..len].cmp(&b[..len]));
        kani::cover!(eq && len == 4);
        kani::cover!(ord == std::cmp::Ordering::Greater && len == 4);
    }
}

#[cfg(kani)]
mod c11 {
    use pallas_crypto::key::ed25519::SecretKeyExtended;

    /// K-complete (loop-free, all 2^512 byte strings): an extended key is accepted from bytes exactly when its clamping bits
    /// are set as required — the three low bits of byte 0 clear, bit 7 of byte 31 clear, bit 6 of byte 31 set.
    #[kani::proof]
    fn c11_extended_from_bytes_accepts_exactly_clamped() {
        let b: [u8; 64] = kani::any();
        let expect = b[0] % 8 == 0 && b[31] >= 64 && b[31] < 128;
        let r = SecretKeyExtended::from_bytes(b);
        assert!(r.is_ok() == expect, "clamping check disagrees with the required bit pattern");
        kani::cover!(r.is_ok());
        kani::cover!(r.is_err());
    }
}
