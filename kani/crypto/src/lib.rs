//! Kani harnesses over the compiled real pallas-crypto crate.
#![allow(unused)]

#[cfg(kani)]
mod memsec_h {
    use pallas_crypto::memsec::{memcmp, memeq};

    /// K-bounded(len <= 4): the real `unsafe` pointer code (what extraction rule R4 dropped) agrees with
    /// ordinary slice comparison, with CBMC's pointer checks on.
    #[kani::proof]
    #[kani::unwind(6)]
    fn memsec_ptr_bounded4() {
        let a: [u8; 4] = kani::any();
        let b: [u8; 4] = kani::any();
        let len: usize = kani::any();
        kani::assume(len >= 1 && len <= 4);
        let eq = unsafe { memeq(a.as_ptr(), b.as_ptr(), len) };
        let ord = unsafe { memcmp(a.as_ptr(), b.as_ptr(), len) };
        assert_eq!(eq, a[..len] == b[..len]);
        assert_eq!(ord, a[..len].cmp(&b[..len]));
        kani::cover!(eq && len == 4);
        kani::cover!(ord == std::cmp::Ordering::Greater && len == 4);
    }
}
