//! Kani harnesses over the compiled real pallas-crypto crate.
#![allow(unused)]

#[cfg(kani)]
mod memsec_h {
    use pallas_crypto::memsec::{memcmp, memeq};

    /// K-bounded(len <= 4): the real `unsafe` pointer code (what extraction rule R4 dropped) agrees with
    /// ordinary slice comparison, with CBMC's pointer checks on.
    #[kani::proof]
    #[kani::unwind(6)]
    fn memsec_ptr_bounded4() {
        let a: [u8; 4] = kani::any();
        let b: [u8; 4] = kani::any();
        let len: usize = kani::any();
        kani::assume(len >= 1 && len <= 4);
        let eq = unsafe { memeq(a.as_ptr(), b.as_ptr(), len) };
        let ord = unsafe { memcmp(a.as_ptr(), b.as_ptr(), len) };
        assert_eq!(eq, a[..len] == b[..len]);
        assert_eq!(ord, a[..len].cmp(&b[..len]));
        kani::cover!(eq && len == 4);
        kani::cover!(ord == std::cmp::Ordering::Greater && len == 4);
    }
}

#[cfg(kani)]
mod c11 {
    use pallas_crypto::key::ed25519::SecretKeyExtended;

    /// K-complete (loop-free, all 2^512 byte strings): an extended key is accepted from bytes exactly when its clamping bits
    /// are set as required — the three low bits of byte 0 clear, bit 7 of byte 31 clear, bit 6 of byte 31 set.
    #[kani::proof]
    fn c11_extended_from_bytes_accepts_exactly_clamped() {
        let b: [u8; 64] = kani::any();
        let expect = b[0] % 8 == 0 && b[31] >= 64 && b[31] < 128;
        let r = SecretKeyExtended::from_bytes(b);
        assert!(r.is_ok() == expect, "clamping check disagrees with the required bit pattern");
        kani::cover!(r.is_ok());
        kani::cover!(r.is_err());
    }
}

#[cfg(kani)]
mod c10 {
    use pallas_crypto::hash::Hash;

    /// the definite-length byte string a CBOR head at the front of `b` announces: (payload offset, payload length)
    fn definite_bytes_head(b: &[u8]) -> Option<(usize, u64)> {
        if b.is_empty() { return None; }
        match b[0] {
            0x40..=0x57 => Some((1, (b[0] - 0x40) as u64)),
            0x58 if b.len() >= 2 => Some((2, b[1] as u64)),
            0x59 if b.len() >= 3 => Some((3, u16::from_be_bytes([b[1], b[2]]) as u64)),
            0x5a if b.len() >= 5 => Some((5, u32::from_be_bytes([b[1], b[2], b[3], b[4]]) as u64)),
            0x5b if b.len() >= 9 => Some((9, u64::from_be_bytes([b[1], b[2], b[3], b[4], b[5], b[6], b[7], b[8]]))),
            _ => None,
        }
    }

    fn check<const BYTES: usize, const BUF: usize>() {
        let buf: [u8; BUF] = kani::any();
        let len: usize = kani::any();
        kani::assume(len <= BUF);
        let input = &buf[..len];
        let r: Result<Hash<BYTES>, _> = pallas_codec_decode(input);
        match definite_bytes_head(input) {
            Some((off, n)) if (n as usize) <= len - off && n <= BUF as u64 => {
                if n as usize == BYTES {
                    // a byte string of exactly BYTES bytes is accepted and the hash is those bytes
                    let h = r.expect("exact-length byte string rejected");
                    assert!(h.as_ref() == &input[off..off + BYTES]);
                } else {
                    // a complete byte string of any other length is rejected
                    assert!(r.is_err());
                }
            }
            // anything else (other major types, indefinite strings, truncated input) never yields a hash
            _ => assert!(r.is_err()),
        }
    }
    fn pallas_codec_decode<const BYTES: usize>(input: &[u8]) -> Result<Hash<BYTES>, ()> {
        let mut d = pallas_codec::minicbor::Decoder::new(input);
        let mut ctx = ();
        <Hash<BYTES> as pallas_codec::minicbor::Decode<()>>::decode(&mut d, &mut ctx).map_err(|_| ())
    }

    /// C10 "hash values ... reject wrong lengths": the real (non-relaxed) `impl Decode for Hash<BYTES>` on every input of up to
    /// BYTES + 10 bytes (all heads incl. non-minimal ones, all contents). BYTES = 4 keeps CBMC small; the code is generic in BYTES.
    #[kani::proof]
    #[kani::unwind(16)]
    fn c10_hash_decode_length_checked_bounded() {
        check::<4, 14>();
    }
    #[kani::proof]
    #[kani::unwind(40)]
    fn c10_hash28_decode_length_checked_bounded() {
        check::<28, 38>();
    }
}
