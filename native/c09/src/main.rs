//! bounded(every *.block, *.tx and *.header fixture of /repo/test_data; of each: every truncation to a length <= 64 and a sample of longer ones, every single-bit
//! flip in the first 48 bytes and at a stride through the rest, bytes replaced by 0x00 / 0x1b / 0x5b / 0x7b / 0x9b / 0xbb / 0x5f / 0x9f / 0xbf / 0xff or turned into an all-ones 4- / 8-byte length of their own major type at a stride (length-field and
//! indefinite-marker corruption), and splices of the first half with the second half of the next fixture; plus every output and address found in the decodable
//! fixtures and 21 crafted Plutus data items (every constructor form, bignums, chunked strings, containers in both length forms, nested) bare and as inline datums,
//! under the same damage; `thorough` divides the strides by 8): MultiEraBlock::decode, MultiEraTx::decode and decode_for_era (7 eras),
//! MultiEraHeader::decode (all tags), MultiEraOutput::decode (7 eras), PlutusData / KeepRaw<PlutusData> decoding, Address::from_bytes / ByronAddress::from_bytes + decode return a value or an error —
//! a panic is a violation. Traversing what decodes (tx hashes, outputs, addresses) is part of the run. Exit 1 with the first panics if not.
use pallas_addresses::{Address, ByronAddress};
use pallas_traverse::{Era, MultiEraBlock, MultiEraHeader, MultiEraOutput, MultiEraTx};
use std::cell::RefCell;

thread_local! { static LAST: RefCell<String> = RefCell::new(String::new()); }
const ERAS: [Era; 7] = [Era::Byron, Era::Shelley, Era::Allegra, Era::Mary, Era::Alonzo, Era::Babbage, Era::Conway];

/// everything the decoders offer on these bytes; Err results are fine
fn decode_all(kind: &str, b: &[u8]) {
    match kind {
        "block" => { if let Ok(blk) = MultiEraBlock::decode(b) { let _ = blk.hash(); let _ = blk.slot(); for tx in blk.txs() { let _ = tx.hash(); for o in tx.outputs() { let _ = o.address(); let _ = o.value().coin(); } for i in tx.inputs() { let _ = i.hash(); } } } }
        "tx" => { if let Ok(tx) = MultiEraTx::decode(b) { let _ = tx.hash(); for o in tx.outputs() { let _ = o.address(); let _ = o.datum(); } let _ = tx.fee(); let _ = tx.mints(); }
            for e in ERAS { if let Ok(tx) = MultiEraTx::decode_for_era(e, b) { let _ = tx.hash(); let _ = tx.outputs().len(); let _ = tx.size(); } } }
        "header" => { for tag in 0u8..8 { for sub in [None, Some(0u8), Some(1)] { if let Ok(h) = MultiEraHeader::decode(tag, sub, b) { let _ = h.hash(); let _ = h.slot(); let _ = h.number(); } } } }
        "plutus" => { if let Ok(d) = pallas_codec::minicbor::decode::<pallas_primitives::PlutusData>(b) { let _ = pallas_codec::minicbor::to_vec(&d); }
            let _ = pallas_codec::minicbor::decode::<pallas_codec::utils::KeepRaw<pallas_primitives::PlutusData>>(b); }
        "output" => { for e in ERAS { if let Ok(o) = MultiEraOutput::decode(e, b) { let _ = o.address(); let _ = o.value().coin(); let _ = o.datum(); } } }
        _ => { if let Ok(a) = Address::from_bytes(b) { let _ = a.to_string(); let _ = a.to_vec(); if let Address::Byron(x) = &a { let _ = x.decode(); } }
            if let Ok(x) = ByronAddress::from_bytes(b) { let _ = x.decode(); let _ = x.to_base58(); } }
    }
}
fn main() {
    let thorough = std::env::args().any(|a| a == "thorough");
    let div = if thorough { 8 } else { 1 };
    std::panic::set_hook(Box::new(|info| { let s = format!("{info}").replace('\n', " "); LAST.with(|l| *l.borrow_mut() = s); }));
    let mut corpus: Vec<(String, &'static str, Vec<u8>)> = Vec::new();
    let mut names: Vec<_> = std::fs::read_dir("/repo/test_data").unwrap().filter_map(|e| e.ok()).map(|e| e.path()).collect();
    names.sort();
    for p in names {
        let ext = p.extension().and_then(|e| e.to_str()).unwrap_or("");
        let kind: &'static str = match ext { "block" => "block", "tx" => "tx", "header" => "header", _ => continue };
        let Ok(text) = std::fs::read_to_string(&p) else { continue };
        let Ok(bytes) = hex::decode(text.trim()) else { continue };
        corpus.push((p.file_name().unwrap().to_string_lossy().into_owned(), kind, bytes));
    }
    // outputs and addresses of what decodes
    let mut extra: Vec<(String, &'static str, Vec<u8>)> = Vec::new();
    for (name, kind, bytes) in &corpus {
        if *kind == "tx" { if let Ok(tx) = MultiEraTx::decode(bytes) { for (i, o) in tx.outputs().iter().enumerate().take(3) {
            extra.push((format!("{name} output #{i}"), "output", o.encode()));
            if let Ok(a) = o.address() { extra.push((format!("{name} output #{i} address"), "address", a.to_vec())); } } } }
    }
    // crafted Plutus data (every constructor form, integers, strings, containers in both length forms, nested), bare and as the inline datum of a Babbage output
    let datums: Vec<&str> = vec!["d8669f0080ff", "d866820080", "d8668218c89f0102ff", "d8799f0102ff", "d87980", "d905009f41aaff", "d9050180", "00", "1b0000000100000000", "3bffffffffffffffff",
        "c249010000000000000000", "c349010000000000000000", "43010203", "5f43010203420405ff", "9f0102ff", "820102", "a1010a", "bf010aff", "d8799fd8799f00ffa1d87980d8669f0180ffff",
        "d8669f1b00000001000000009f5f4101ffffff", "9f9f9f9f00ffffffff"];
    for (k, h) in datums.iter().enumerate() {
        let d = hex::decode(h).unwrap();
        corpus.push((format!("crafted datum #{k} ({h})"), "plutus", d.clone()));
        let mut out = vec![0xa3u8, 0x00, 0x58, 0x1d, 0x61]; out.extend([0u8; 28]); out.extend([0x01, 0x1a, 0x00, 0x0f, 0x42, 0x40, 0x02, 0x82, 0x01, 0xd8, 0x18, 0x58, d.len() as u8]); out.extend(&d);
        corpus.push((format!("Babbage output with inline datum #{k} ({h})"), "output", out));
    }
    corpus.extend(extra);
    if corpus.len() < 100 { println!("VIOLATED: only {} corpus entries — fixtures not found", corpus.len()); std::process::exit(1); }
    let mut n = 0u64; let mut panics: Vec<String> = Vec::new();
    let mut run = |what: String, kind: &str, b: &[u8]| {
        n += 1;
        LAST.with(|l| l.borrow_mut().clear());
        if std::panic::catch_unwind(|| decode_all(kind, b)).is_err() {
            let msg = LAST.with(|l| l.borrow().clone());
            if panics.len() < 40 && !panics.iter().any(|p: &String| p.contains(&msg)) { panics.push(format!("{what}: decoding PANICKED ({msg}); input {}", hex::encode(&b[..b.len().min(96)]))); }
        }
    };
    for idx in 0..corpus.len() {
        let (name, kind, bytes) = (&corpus[idx].0, corpus[idx].1, &corpus[idx].2);
        run(format!("{name} as it is"), kind, bytes);
        let len = bytes.len();
        let stride = (len / (if kind == "block" { 40 } else { 120 }) / div).max(1);
        for cut in (0..len.min(65)).chain((65..len).step_by(stride)) { run(format!("{name} truncated to {cut} bytes"), kind, &bytes[..cut]); }
        for pos in (0..len.min(48)).chain((48..len).step_by(stride)) {
            for bit in 0..8 { let mut m = bytes.clone(); m[pos] ^= 1 << bit; run(format!("{name} with bit {bit} of byte {pos} flipped"), kind, &m); }
        }
        for pos in (0..len).step_by(stride.max(2)) {
            for v in [0x00u8, 0x1b, 0x5f, 0x9f, 0xbf, 0xff, 0x3b, 0xdb, 0x5b, 0x7b, 0x9b, 0xbb] { if bytes[pos] != v { let mut m = bytes.clone(); m[pos] = v; run(format!("{name} with byte {pos} replaced by {v:#04x}"), kind, &m); } }
            for (ai, fill) in [(27u8, 8usize), (26, 4)] { let mut m = bytes[..pos].to_vec(); m.push((bytes[pos] & 0xe0) | ai); m.extend(std::iter::repeat(0xffu8).take(fill)); m.extend_from_slice(&bytes[pos + 1..]); run(format!("{name} with byte {pos} turned into a {fill}-byte length of all ones"), kind, &m); }
        }
        let next = &corpus[(idx + 1) % corpus.len()].2;
        let mut sp = bytes[..len / 2].to_vec(); sp.extend_from_slice(&next[next.len() / 2..]);
        run(format!("{name}: first half spliced with the second half of the next fixture"), kind, &sp);
    }
    let _ = std::panic::take_hook();
    for p in &panics { println!("VIOLATED: {p}"); }
    println!("checked {n} damaged inputs over {} corpus entries", corpus.len());
    if !panics.is_empty() { std::process::exit(1); }
}
