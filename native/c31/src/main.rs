//! bounded(every Alonzo, Babbage and Conway transaction fixture under /repo/test_data, each with its phase-2 validity flag set to true and
//! to false, and again with its inputs replaced by [A, B, A] and its collateral by [B, A, B, A] — repetitions that are not adjacent): a valid transaction consumes its inputs, each reference once, and produces its outputs
//! at 0..n-1; a failed one consumes only its collateral inputs and produces only its collateral return, at index n; produces_at agrees
//! with produces at every index 0..n+1; the sorted input set is strictly increasing in (tx id, index) and covers exactly the inputs.
//! Exit 1 with the first failing fixture if not.
use pallas_primitives::{alonzo, babbage, conway};
use pallas_codec::minicbor;
use pallas_traverse::{Era, MultiEraTx};

fn fail(msg: String) -> ! { println!("VIOLATED: {msg}"); std::process::exit(1) }
fn check(name: &str, tx: &MultiEraTx, expect_valid: bool, n: &mut u64) {
    if tx.is_valid() != expect_valid { fail(format!("{name}: is_valid() is {} for a transaction whose validity flag is {expect_valid}", tx.is_valid())); }
    let refs = |v: Vec<pallas_traverse::MultiEraInput>| -> Vec<(Vec<u8>, u64)> { v.iter().map(|i| (i.hash().to_vec(), i.index())).collect() };
    let source = if expect_valid { refs(tx.inputs()) } else { refs(tx.collateral()) };
    let mut first: Vec<(Vec<u8>, u64)> = Vec::new();
    for r in &source { if !first.contains(r) { first.push(r.clone()); } }
    let consumed = refs(tx.consumes());
    if consumed != first { fail(format!("{name} (valid = {expect_valid}): consumes() yields {} references, expected the {} distinct {} in order", consumed.len(), first.len(), if expect_valid { "inputs" } else { "collateral inputs" })); }
    let outs = tx.outputs();
    let produced = tx.produces();
    if expect_valid {
        if produced.len() != outs.len() || produced.iter().enumerate().any(|(i, (k, o))| *k != i || o.encode() != outs[i].encode()) { fail(format!("{name} (valid): produces() is not the outputs at 0..{}", outs.len())); }
    } else {
        match (tx.collateral_return(), produced.as_slice()) {
            (Some(cr), [(k, o)]) if *k == outs.len() && o.encode() == cr.encode() => {}
            (None, []) => {}
            _ => fail(format!("{name} (failed scripts): produces() yields {:?} — expected only the collateral return at index {}", produced.iter().map(|p| p.0).collect::<Vec<_>>(), outs.len())),
        }
    }
    for i in 0..outs.len() + 2 {
        let at = tx.produces_at(i).map(|o| o.encode());
        let listed = produced.iter().find(|(k, _)| *k == i).map(|(_, o)| o.encode());
        if at != listed { fail(format!("{name} (valid = {expect_valid}): produces_at({i}) disagrees with produces()")); }
    }
    let sorted = refs(tx.inputs_sorted_set());
    if sorted.windows(2).any(|w| w[0] >= w[1]) { fail(format!("{name}: inputs_sorted_set() is not strictly increasing in (tx id, index)")); }
    let mut all = refs(tx.inputs()); all.sort(); all.dedup();
    if sorted != all { fail(format!("{name}: inputs_sorted_set() does not cover exactly the inputs")); }
    *n += 1;
}

fn main() {
    let dir = std::path::Path::new("/repo/test_data");
    let mut names: Vec<String> = std::fs::read_dir(dir).expect("test_data").filter_map(|e| e.ok()).map(|e| e.file_name().to_string_lossy().to_string()).filter(|n| n.ends_with(".tx")).collect();
    names.sort();
    let mut n = 0u64;
    for name in names {
        let Ok(bytes) = hex::decode(std::fs::read_to_string(dir.join(&name)).unwrap().trim()) else { continue };
        if name.starts_with("alonzo") {
            let Ok(mut tx) = minicbor::decode::<alonzo::Tx>(&bytes) else { continue };
            for v in [true, false] { tx.success = v; check(&name, &MultiEraTx::from_alonzo_compatible(&tx, Era::Alonzo), v, &mut n); }
            // the same transaction with an input (and a collateral input) listed again, NOT next to its first occurrence: [A, B, A]
            if let Some(a) = tx.transaction_body.inputs.first().cloned() {
                let mut b = a.clone(); b.index = b.index.wrapping_add(7);
                let body = &mut *tx.transaction_body;
                body.inputs = vec![a.clone(), b.clone(), a.clone()];
                body.collateral = Some(vec![b.clone(), a.clone(), b.clone(), a.clone()]);
                for v in [true, false] { tx.success = v; check(&format!("{name} with inputs [A, B, A]"), &MultiEraTx::from_alonzo_compatible(&tx, Era::Alonzo), v, &mut n); }
            }
        } else if name.starts_with("babbage") {
            let Ok(mut tx) = minicbor::decode::<babbage::Tx>(&bytes) else { continue };
            for v in [true, false] { tx.success = v; check(&name, &MultiEraTx::from_babbage(&tx), v, &mut n); }
            if let Some(a) = tx.transaction_body.inputs.first().cloned() {
                let mut b = a.clone(); b.index = b.index.wrapping_add(7);
                let body = &mut *tx.transaction_body;
                body.inputs = vec![a.clone(), b.clone(), a.clone()];
                body.collateral = Some(vec![b.clone(), a.clone(), b.clone(), a.clone()]);
                for v in [true, false] { tx.success = v; check(&format!("{name} with inputs [A, B, A]"), &MultiEraTx::from_babbage(&tx), v, &mut n); }
            }
        } else if name.starts_with("conway") {
            let Ok(mut tx) = minicbor::decode::<conway::Tx>(&bytes) else { continue };
            for v in [true, false] { tx.success = v; check(&name, &MultiEraTx::from_conway(&tx), v, &mut n); }
            if let Some(a) = tx.transaction_body.inputs.first().cloned() {
                let mut b = a.clone(); b.index = b.index.wrapping_add(7);
                let body = &mut *tx.transaction_body;
                body.inputs = vec![a.clone(), b.clone(), a.clone()].into();
                body.collateral = pallas_codec::utils::NonEmptySet::from_vec(vec![b.clone(), a.clone(), b.clone(), a.clone()]);
                for v in [true, false] { tx.success = v; check(&format!("{name} with inputs [A, B, A]"), &MultiEraTx::from_conway(&tx), v, &mut n); }
            }
        }
    }
    if n < 10 { eprintln!("only {n} fixture checks ran"); std::process::exit(2); }
    println!("checked {n} (fixture, validity) pairs: consumed and produced sets follow the validity flag");
}
