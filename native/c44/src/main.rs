//! bounded(every block fixture under /repo/test_data that decodes — all eras — and every transaction in it, mapped with BOTH schema versions'
//! Mapper): the mapped block carries the block's hash, slot, height and as many transactions; every mapped transaction carries the
//! transaction's hash, its inputs as the sorted set of (tx id, index), its outputs in order with the address bytes, the coin, and every asset's
//! policy, name and quantity, the fee, the validity interval and phase-2 flag, the mint, the collateral and reference inputs, and for
//! every output datum its hash (and the on-chain bytes of an inline datum). Integers are read back exactly from the schema's BigInt. Plus 19
//! generated Babbage outputs per version whose inline datum is given as raw CBOR — integers across the CBOR range (also non-minimal heads and
//! bignums), byte strings written definite and indefinite, lists / maps / constructors in both forms: the datum hash is the hash of those bytes. Plus 40 generated
//! outputs per version (Alonzo / Babbage / Conway, array and map form) with one asset of quantity 1 .. 2^64-1: the mapped quantity is the quantity.
//! Exit 1 with the first failing fixture / transaction / field if not.
use pallas_traverse::{MultiEraBlock, MultiEraOutput, MultiEraTx, OriginalHash};
use pallas_primitives::conway::DatumOption;

fn fail(msg: String) -> ! { println!("VIOLATED: {msg}"); std::process::exit(1) }
#[derive(Clone)]
struct NoLedger;
impl pallas_utxorpc::LedgerContext for NoLedger {
    fn get_utxos(&self, _refs: &[pallas_utxorpc::TxoRef]) -> Option<pallas_utxorpc::UtxoMap> { None }
    fn get_slot_timestamp(&self, _slot: u64) -> Option<u64> { None }
}
fn be(b: &[u8]) -> i128 { b.iter().fold(0i128, |a, x| a * 256 + *x as i128) }

macro_rules! version {
    ($fname:ident, $vm:ident, $label:expr, $qty:expr, $dcbor:expr) => {
        fn $fname(name: &str, block: &MultiEraBlock, n: &mut u64) {
            use pallas_utxorpc::$vm::{spec::cardano as u5c, Mapper};
            let big = |b: &Option<u5c::BigInt>, what: &str| -> i128 {
                match b.as_ref().and_then(|x| x.big_int.as_ref()) {
                    Some(u5c::big_int::BigInt::Int(i)) => *i as i128,
                    Some(u5c::big_int::BigInt::BigUInt(b)) => be(b),
                    Some(u5c::big_int::BigInt::BigNInt(b)) => -1 - be(b),
                    None => fail(format!("{} {name}: {what} is missing", $label)),
                }
            };
            let mapper = Mapper::new(NoLedger);
            let mb: u5c::Block = mapper.map_block(block);
            let hdr = mb.header.as_ref().unwrap_or_else(|| fail(format!("{} {name}: mapped block has no header", $label)));
            if hdr.hash.as_ref() != block.hash().as_ref() || hdr.slot != block.slot() || hdr.height != block.number() { fail(format!("{} {name}: mapped header (hash, slot, height) differs from the block's", $label)); }
            let txs = block.txs();
            let mtxs = &mb.body.as_ref().unwrap_or_else(|| fail(format!("{} {name}: mapped block has no body", $label))).tx;
            if mtxs.len() != txs.len() { fail(format!("{} {name}: {} transactions mapped, the block has {}", $label, mtxs.len(), txs.len())); }
            for (ti, (tx, m)) in txs.iter().zip(mtxs.iter()).enumerate() {
                let at = format!("{} {name} transaction {ti}", $label);
                let check_output = |o: &MultiEraOutput, mo: &u5c::TxOutput, which: &str| {
                    let addr = o.address().map(|a| a.to_vec()).unwrap_or_default();
                    if mo.address.as_ref() != addr.as_slice() { fail(format!("{at} {which}: address bytes differ")); }
                    if big(&mo.coin, "an output's coin") != o.value().coin() as i128 { fail(format!("{at} {which}: coin {} mapped as {}", o.value().coin(), big(&mo.coin, "coin"))); }
                    let mut want: Vec<(Vec<u8>, Vec<u8>, i128)> = vec![];
                    for pa in o.value().assets() { for a in pa.assets() { want.push((pa.policy().to_vec(), a.name().to_vec(), a.any_coin() as i128)); } }
                    let mut got: Vec<(Vec<u8>, Vec<u8>, i128)> = vec![];
                    for ma in &mo.assets { for a in &ma.assets { got.push((ma.policy_id.to_vec(), a.name.to_vec(), big(&($qty)(a), "an asset quantity"))); } }
                    want.sort(); got.sort();
                    if want != got { fail(format!("{at} {which}: assets {} mapped as {}", show(&want), show(&got))); }
                    let md = mo.datum.as_ref();
                    match o.datum() {
                        Some(DatumOption::Hash(h)) => { if md.map(|d| d.hash.as_ref()) != Some(h.as_ref()) { fail(format!("{at} {which}: datum hash differs")); } }
                        Some(DatumOption::Data(d)) => {
                            if md.map(|x| x.hash.as_ref()) != Some(d.original_hash().as_ref()) { fail(format!("{at} {which}: inline datum hash differs")); }
                            if md.and_then(|x| ($dcbor)(x)) != Some(d.raw_cbor().to_vec()) { fail(format!("{at} {which}: inline datum bytes differ")); }
                            if md.and_then(|x| x.payload.as_ref()).is_none() { fail(format!("{at} {which}: inline datum has no parsed payload")); }
                        }
                        None => { if md.map_or(false, |d| !d.hash.is_empty()) { fail(format!("{at} {which}: a datum hash appears on an output without datum")); } }
                    }
                };
                if m.hash.as_ref() != tx.hash().as_ref() { fail(format!("{at}: hash differs")); }
                let ins: Vec<(Vec<u8>, u64)> = tx.inputs_sorted_set().iter().map(|i| (i.hash().to_vec(), i.index())).collect();
                let mins: Vec<(Vec<u8>, u64)> = m.inputs.iter().map(|i| (i.tx_hash.to_vec(), i.output_index as u64)).collect();
                if ins != mins { fail(format!("{at}: inputs differ ({} against {} mapped)", ins.len(), mins.len())); }
                let outs = tx.outputs();
                if outs.len() != m.outputs.len() { fail(format!("{at}: {} outputs mapped, the transaction has {}", m.outputs.len(), outs.len())); }
                for (oi, (o, mo)) in outs.iter().zip(m.outputs.iter()).enumerate() { check_output(o, mo, &format!("output {oi}")); }
                if big(&m.fee, "the fee") != tx.fee().unwrap_or_default() as i128 { fail(format!("{at}: fee {:?} mapped as {}", tx.fee(), big(&m.fee, "fee"))); }
                let v = m.validity.as_ref().unwrap_or_else(|| fail(format!("{at}: no validity")));
                if v.start != tx.validity_start().unwrap_or_default() || v.ttl != tx.ttl().unwrap_or_default() || m.successful != tx.is_valid() { fail(format!("{at}: validity interval or phase-2 flag differs")); }
                let mut mint: Vec<(Vec<u8>, Vec<u8>, i128)> = vec![];
                for pa in tx.mints_sorted_set() { for a in pa.assets() { mint.push((pa.policy().to_vec(), a.name().to_vec(), a.any_coin() as i128)); } }
                let mut mmint: Vec<(Vec<u8>, Vec<u8>, i128)> = vec![];
                for ma in &m.mint { for a in &ma.assets { mmint.push((ma.policy_id.to_vec(), a.name.to_vec(), big(&($qty)(a), "a mint quantity"))); } }
                mint.sort(); mmint.sort();
                if mint != mmint { fail(format!("{at}: mint {} mapped as {}", show(&mint), show(&mmint))); }
                let refs: Vec<(Vec<u8>, u64)> = tx.reference_inputs().iter().map(|i| (i.hash().to_vec(), i.index())).collect();
                let mrefs: Vec<(Vec<u8>, u64)> = m.reference_inputs.iter().map(|i| (i.tx_hash.to_vec(), i.output_index as u64)).collect();
                if refs != mrefs { fail(format!("{at}: reference inputs differ")); }
                let col: Vec<(Vec<u8>, u64)> = tx.collateral().iter().map(|i| (i.hash().to_vec(), i.index())).collect();
                let mc = m.collateral.as_ref().unwrap_or_else(|| fail(format!("{at}: no collateral record")));
                let mcol: Vec<(Vec<u8>, u64)> = mc.collateral.iter().map(|i| (i.tx_hash.to_vec(), i.output_index as u64)).collect();
                if col != mcol { fail(format!("{at}: collateral inputs differ")); }
                match (tx.collateral_return(), mc.collateral_return.as_ref()) { (Some(o), Some(mo)) => check_output(&o, mo, "collateral return"), (None, None) => {}, _ => fail(format!("{at}: collateral return present on one side only")) }
                if big(&mc.total_collateral, "total collateral") != tx.total_collateral().unwrap_or_default() as i128 { fail(format!("{at}: total collateral differs")); }
                // a transaction mapped on its own is the same record
                let alone = mapper.map_tx(tx);
                if alone.hash != m.hash || alone.outputs.len() != m.outputs.len() || alone.fee != m.fee { fail(format!("{at}: map_tx and map_block disagree")); }
                *n += 1;
            }
        }
    };
}
version!(check_v1beta, v1beta, "v1beta", |a: &u5c::Asset| a.quantity.clone(), |d: &u5c::Datum| d.original_cbor.as_ref().map(|b| b.to_vec()));
version!(check_v1alpha, v1alpha, "v1alpha", |a: &u5c::Asset| match &a.quantity { Some(u5c::asset::Quantity::OutputCoin(b)) | Some(u5c::asset::Quantity::MintCoin(b)) => Some(b.clone()), None => None }, |d: &u5c::Datum| Some(d.original_cbor.to_vec()));
/// generated outputs: a Babbage post-Alonzo output whose inline datum is given as raw CBOR (canonical or not), mapped on its own
macro_rules! datum_version {
    ($fname:ident, $vm:ident, $label:expr, $dcbor:expr, $int_of:expr) => {
        fn $fname(n: &mut u64) {
            use pallas_utxorpc::$vm::{spec::cardano as u5c, Mapper};
            let mapper = Mapper::new(NoLedger);
            // (datum CBOR, the integer it denotes if it is one)
            let datums: Vec<(Vec<u8>, Option<i128>)> = vec![
                (vec![0x00], Some(0)), (vec![0x17], Some(23)), (vec![0x18, 0x18], Some(24)), (vec![0x1b, 0, 0, 0, 0, 0, 0, 0, 1], Some(1)),          // 1 on eight bytes: not canonical
                (vec![0x1b, 0x80, 0, 0, 0, 0, 0, 0, 0], Some(1i128 << 63)), (vec![0x1b, 0xff, 0xff, 0xff, 0xff, 0xff, 0xff, 0xff, 0xff], Some((1i128 << 64) - 1)),
                (vec![0x20], Some(-1)), (vec![0x3b, 0x7f, 0xff, 0xff, 0xff, 0xff, 0xff, 0xff, 0xff], Some(-(1i128 << 63))), (vec![0x3b, 0xff, 0xff, 0xff, 0xff, 0xff, 0xff, 0xff, 0xff], Some(-(1i128 << 64))),
                (vec![0xc2, 0x49, 0x01, 0, 0, 0, 0, 0, 0, 0, 0], Some(1i128 << 64)), (vec![0xc3, 0x49, 0x01, 0, 0, 0, 0, 0, 0, 0, 0], Some(-1 - (1i128 << 64))),
                (vec![0x5f, 0x43, 1, 2, 3, 0xff], None),                      // bytes written as an indefinite string: not canonical
                (vec![0x43, 1, 2, 3], None), (vec![0x9f, 0x01, 0x02, 0xff], None), (vec![0x82, 0x01, 0x02], None), (vec![0xd8, 0x79, 0x9f, 0x18, 0x2a, 0xff], None), (vec![0xd8, 0x79, 0x81, 0x18, 0x2a], None),
                (vec![0xa1, 0x01, 0x02], None), (vec![0xbf, 0x01, 0x02, 0xff], None),
            ];
            for (dc, int) in &datums {
                let addr = [0x61u8].iter().copied().chain(std::iter::repeat(0x5a).take(28)).collect::<Vec<u8>>();
                let mut out = vec![0xa3, 0x00, 0x58, addr.len() as u8]; out.extend_from_slice(&addr);
                out.extend_from_slice(&[0x01, 0x1a, 0x00, 0x1e, 0x84, 0x80]);                  // 2 000 000 lovelace
                out.extend_from_slice(&[0x02, 0x82, 0x01, 0xd8, 0x18, 0x58, dc.len() as u8]); out.extend_from_slice(dc);
                let o = MultiEraOutput::decode(pallas_traverse::Era::Babbage, &out).unwrap_or_else(|e| fail(format!("{} generated output with datum {} does not decode: {e}", $label, hex::encode(dc))));
                let mo: u5c::TxOutput = mapper.map_tx_output(&o, None);
                let d = mo.datum.as_ref().unwrap_or_else(|| fail(format!("{} output with inline datum {}: no datum mapped", $label, hex::encode(dc))));
                let want = pallas_crypto::hash::Hasher::<256>::hash(dc);
                if d.hash.as_ref() != want.as_ref() { fail(format!("{} output with inline datum {}: mapped datum hash {} is not the hash of the on-chain bytes {}", $label, hex::encode(dc), hex::encode(&d.hash), want)); }
                if ($dcbor)(d) != Some(dc.clone()) { fail(format!("{} output with inline datum {}: original bytes not carried", $label, hex::encode(dc))); }
                if let Some(v) = int { let got: Option<i128> = ($int_of)(d); if got != Some(*v) { fail(format!("{} output with inline datum {}: the integer {v} is mapped as {got:?}", $label, hex::encode(dc))); } }
                if mo.address.as_ref() != addr.as_slice() { fail(format!("{} generated output: address bytes differ", $label)); }
                *n += 1;
            }
        }
    };
}
/// generated outputs carrying one asset whose quantity sits at the edges of the signed / unsigned 64-bit ranges, in the array and the map form of
/// every era that has them: the mapped quantity is the quantity
macro_rules! asset_version {
    ($fname:ident, $vm:ident, $label:expr, $qty:expr) => {
        fn $fname(n: &mut u64) {
            use pallas_utxorpc::$vm::{spec::cardano as u5c, Mapper};
            use pallas_traverse::Era;
            let mapper = Mapper::new(NoLedger);
            let big = |b: &Option<u5c::BigInt>| -> Option<i128> { match b.as_ref().and_then(|x| x.big_int.as_ref()) {
                Some(u5c::big_int::BigInt::Int(i)) => Some(*i as i128), Some(u5c::big_int::BigInt::BigUInt(b)) => Some(be(b)), Some(u5c::big_int::BigInt::BigNInt(b)) => Some(-1 - be(b)), None => None } };
            let addr = [0x61u8].iter().copied().chain(std::iter::repeat(0x5a).take(28)).collect::<Vec<u8>>();
            for q in [1u64, 23, 24, u32::MAX as u64, (1u64 << 63) - 1, 1u64 << 63, u64::MAX - 1, u64::MAX] {
                let mut value = vec![0x82, 0x1a, 0x00, 0x1e, 0x84, 0x80, 0xa1, 0x58, 0x1c]; value.extend_from_slice(&[0xaa; 28]);
                value.extend_from_slice(&[0xa1, 0x44, b't', b'e', b's', b't', 0x1b]); value.extend_from_slice(&q.to_be_bytes());
                let mut legacy = vec![0x82, 0x58, addr.len() as u8]; legacy.extend_from_slice(&addr); legacy.extend_from_slice(&value);
                let mut post = vec![0xa2, 0x00, 0x58, addr.len() as u8]; post.extend_from_slice(&addr); post.push(0x01); post.extend_from_slice(&value);
                for (era, bytes, form) in [(Era::Alonzo, &legacy, "array"), (Era::Babbage, &legacy, "array"), (Era::Babbage, &post, "map"), (Era::Conway, &legacy, "array"), (Era::Conway, &post, "map")] {
                    let o = MultiEraOutput::decode(era, bytes).unwrap_or_else(|e| fail(format!("{} generated {era:?} output ({form} form) with asset quantity {q} does not decode: {e}", $label)));
                    let mo: u5c::TxOutput = mapper.map_tx_output(&o, None);
                    let got: Vec<Option<i128>> = mo.assets.iter().flat_map(|ma| ma.assets.iter().map(|a| big(&($qty)(a))).collect::<Vec<_>>()).collect();
                    if got != vec![Some(q as i128)] { fail(format!("{} {era:?} output ({form} form) with one asset of quantity {q}: mapped quantities {got:?}", $label)); }
                    *n += 1;
                }
            }
        }
    };
}
asset_version!(assets_v1beta, v1beta, "v1beta", |a: &u5c::Asset| a.quantity.clone());
asset_version!(assets_v1alpha, v1alpha, "v1alpha", |a: &u5c::Asset| match &a.quantity { Some(u5c::asset::Quantity::OutputCoin(b)) | Some(u5c::asset::Quantity::MintCoin(b)) => Some(b.clone()), None => None });
datum_version!(datums_v1beta, v1beta, "v1beta", |d: &u5c::Datum| d.original_cbor.as_ref().map(|b| b.to_vec()),
    |d: &u5c::Datum| match d.payload.as_ref().and_then(|p| p.plutus_data.as_ref()) { Some(u5c::plutus_data::PlutusData::BigInt(b)) => match b.big_int.as_ref() { Some(u5c::big_int::BigInt::Int(i)) => Some(*i as i128), Some(u5c::big_int::BigInt::BigUInt(x)) => Some(be(x)), Some(u5c::big_int::BigInt::BigNInt(x)) => Some(-1 - be(x)), None => None }, _ => None });
datum_version!(datums_v1alpha, v1alpha, "v1alpha", |d: &u5c::Datum| Some(d.original_cbor.to_vec()),
    |d: &u5c::Datum| match d.payload.as_ref().and_then(|p| p.plutus_data.as_ref()) { Some(u5c::plutus_data::PlutusData::BigInt(b)) => match b.big_int.as_ref() { Some(u5c::big_int::BigInt::Int(i)) => Some(*i as i128), Some(u5c::big_int::BigInt::BigUInt(x)) => Some(be(x)), Some(u5c::big_int::BigInt::BigNInt(x)) => Some(-1 - be(x)), None => None }, _ => None });

fn show(v: &[(Vec<u8>, Vec<u8>, i128)]) -> String { v.iter().map(|(p, n, q)| format!("{}.{} {q}", hex::encode(&p[..p.len().min(4)]), hex::encode(n))).collect::<Vec<_>>().join(", ") }
#[allow(dead_code)] fn unused(_: &MultiEraTx) {}

fn main() {
    let dir = std::path::Path::new("/repo/test_data");
    let mut names: Vec<String> = std::fs::read_dir(dir).expect("test_data").filter_map(|e| e.ok()).map(|e| e.file_name().to_string_lossy().to_string()).filter(|n| n.ends_with(".block")).collect();
    names.sort();
    let (mut n, mut blocks) = (0u64, 0u64);
    for name in names {
        let Ok(bytes) = hex::decode(std::fs::read_to_string(dir.join(&name)).unwrap().trim()) else { continue };
        let Ok(block) = MultiEraBlock::decode(&bytes) else { continue };
        check_v1beta(&name, &block, &mut n);
        check_v1alpha(&name, &block, &mut n);
        blocks += 1;
    }
    datums_v1beta(&mut n); datums_v1alpha(&mut n);
    assets_v1beta(&mut n); assets_v1alpha(&mut n);
    if blocks < 10 { fail(format!("only {blocks} block fixtures decoded: the harness is not exercising the mappers")); }
    println!("checked {n} mapped transactions in {blocks} blocks, both schema versions, and generated outputs with canonical and non-canonical inline datums");
}
