//! Takes the Conway execution-unit rule out of the phase-1 source, mechanically: the current text of `fn check_tx_ex_units` in
//! pallas-validate/src/phase1/conway.rs and of every private function of that file it calls by name (transitively), brace-matched from the
//! `fn` keyword, line comments skipped, `pub ` put in front. The functions are private, so the stand-in calls this copy of their current text.
//! A name that is no longer there yields `FOUND = false`, and the stand-in says so instead of judging anything.
use std::{env, fs, path::Path};
fn item(src: &str, name: &str) -> Option<String> {
    let at = src.find(&format!("\nfn {name}("))? + 1;
    let open = at + src[at..].find('{')?;
    let (mut depth, mut in_comment, mut prev) = (0i32, false, ' ');
    for (i, ch) in src[open..].char_indices() {
        if in_comment { if ch == '\n' { in_comment = false; } }
        else if ch == '/' && prev == '/' { in_comment = true; }
        else if ch == '{' { depth += 1; } else if ch == '}' { depth -= 1; if depth == 0 { return Some(src[at..open + i + 1].to_string()); } }
        prev = ch;
    }
    None
}
fn main() {
    let out = env::var("OUT_DIR").unwrap();
    let path = "/repo/pallas-validate/src/phase1/conway.rs";
    println!("cargo:rerun-if-changed={path}");
    let src = fs::read_to_string(path).unwrap();
    let mut names = vec!["check_tx_ex_units".to_string()];
    let mut texts: Vec<String> = Vec::new();
    let mut k = 0;
    while k < names.len() && k < 12 {
        match item(&src, &names[k]) {
            Some(t) if !t.contains('"') && !t.contains("/*") => {
                // private functions of the same file called by name
                let bytes = t.as_bytes();
                let mut i = 0;
                while i < bytes.len() {
                    if bytes[i].is_ascii_alphabetic() || bytes[i] == b'_' {
                        let s = i; while i < bytes.len() && (bytes[i].is_ascii_alphanumeric() || bytes[i] == b'_') { i += 1; }
                        let id = &t[s..i];
                        if i < bytes.len() && bytes[i] == b'(' && (s == 0 || (bytes[s - 1] != b'.' && bytes[s - 1] != b':')) && src.contains(&format!("\nfn {id}(")) && !names.iter().any(|n| n == id) { names.push(id.to_string()); }
                    } else { i += 1; }
                }
                texts.push(format!("pub {t}"));
            }
            _ => { texts.clear(); break; }
        }
        k += 1;
    }
    let body = if texts.is_empty() {
        "pub const FOUND: bool = false; pub fn call(_: &Tx, _: &ConwayProtParams) -> ValidationResult { Ok(()) }".to_string()
    } else {
        format!("pub const FOUND: bool = true;\n{}\npub fn call(mtx: &Tx, pp: &ConwayProtParams) -> ValidationResult {{ check_tx_ex_units(mtx, pp) }}", texts.join("\n"))
    };
    // the parameters are a shim with the one field the rule reads: a body that reads another field does not build, and the stand-in is then undecided
    let module = format!("#[allow(unused, dead_code, unused_imports, clippy::all)]\npub mod exu_conway {{\nuse pallas_primitives::conway::*; use pallas_primitives::*; use pallas_codec::utils::*; use std::collections::*; use std::ops::Deref;\nuse pallas_validate::utils::{{ValidationError, ValidationError::*, PostAlonzoError::*, ValidationResult}};\npub struct ConwayProtParams {{ pub max_tx_ex_units: ExUnits }}\n{body}\n}}\n");
    fs::write(Path::new(&out).join("exu.rs"), module).unwrap();
}
