//! bounded(the mainnet Plutus V1 fixture babbage4.tx — declared units mem 3678344, steps 1304942839 — validated end to end with the
//! per-transaction limits set to every combination of {declared - 1, declared, declared + 1, far below, far above} for memory and steps): the
//! transaction is accepted exactly when both its memory and its steps are within the limits. Exit 1 with the first failing pair of limits if not.
#[path = "/repo/pallas-validate/tests/common.rs"]
#[allow(dead_code, unused_imports)]
mod common;
#[allow(unused_imports)]
mod harness {
    use crate::common::*;
    use pallas_codec::utils::Bytes;
    use pallas_primitives::babbage::{CostModels, DatumOption, ExUnitPrices, ExUnits, Nonce, NonceVariant, RationalNumber, Tx, Value};
    use pallas_traverse::MultiEraTx;
    use pallas_validate::{phase1::validate_txs, utils::{AccountState, BabbageProtParams, CertState, Environment, MultiEraProtocolParameters, UTxOs}};
    pub fn verdict_with_limits(max_mem: u64, max_steps: u64) -> Result<(), String> {
        let cbor_bytes: Vec<u8> = cbor_to_bytes(&std::fs::read_to_string("/repo/test_data/babbage4.tx").expect("fixture babbage4.tx"));
        let mtx: Tx = babbage_minted_tx_from_cbor(&cbor_bytes);
        let metx: MultiEraTx = MultiEraTx::from_babbage(&mtx);
        let tx_outs_info: &[BabbageTxOutInfo] = &[
            (
                String::from(
                    "11a55f409501bf65805bb0dc76f6f9ae90b61e19ed870bc0025681360881728e7ed4cf324e1323135e7e6d931f01e30792d9cdf17129cb806d",
                ),
                Value::Coin(25000000),
                Some(DatumOption::Hash(
                    hex::decode("3E8C4B1D396BB8132E5097F5A2F012D97900CBC496A3745DB4226CEA4CB66465")
                        .unwrap()
                        .as_slice()
                        .into(),
                )),
                None,
            ),
            (
                String::from(
                    "01f1e126304308006938d2e8571842ff87302fff95a037b3fd838451b8b3c9396d0680d912487139cb7fc85aa279ea70e8cdacee4c6cae40fd",
                ),
                Value::Multiasset(
                    1795660,
                    [(
                        "787f0c946b98153500edc0a753e65457250544da8486b17c85708135"
                            .parse()
                            .unwrap(),
                        [(
                            Bytes::from(
                                hex::decode("506572666563744c6567656e64617279446572705365616c")
                                    .unwrap(),
                            ),
                            1,
                        )]
                        .into(),
                    )]
                    .into(),
                ),
                None,
                None,
            ),
        ];
        let mut utxos: UTxOs = mk_utxo_for_babbage_tx(&mtx.transaction_body, tx_outs_info);
        let collateral_info: &[BabbageCollateralInfo] = &[(
            String::from(
                "01f1e126304308006938d2e8571842ff87302fff95a037b3fd838451b8b3c9396d0680d912487139cb7fc85aa279ea70e8cdacee4c6cae40fd",
            ),
            Value::Coin(5000000),
            None,
            None,
        )];
        add_collateral_babbage(&mtx.transaction_body, &mut utxos, collateral_info);
        let mut babbage_prot_params: BabbageProtParams = mk_mainnet_params_epoch_365();
        babbage_prot_params.max_tx_ex_units.mem = max_mem;
        babbage_prot_params.max_tx_ex_units.steps = max_steps;
        let acnt = AccountState {
            treasury: 261_254_564_000_000,
            reserves: 0,
        };

        let env: Environment = Environment {
            prot_params: MultiEraProtocolParameters::Babbage(babbage_prot_params),
            prot_magic: 764824073,
            block_slot: 72317003,
            network_id: 1,
            acnt: Some(acnt),
        };
        let mut cert_state: CertState = CertState::default();
        validate_txs(&[metx], &env, &utxos, &mut cert_state).map_err(|e| format!("{e:?}"))
    }

    fn mk_mainnet_params_epoch_365() -> BabbageProtParams {
        BabbageProtParams {
            system_start: chrono::DateTime::parse_from_rfc3339("2017-09-23T21:44:51Z").unwrap(),
            epoch_length: 432000,
            slot_length: 1,
            minfee_a: 44,
            minfee_b: 155381,
            max_block_body_size: 90112,
            max_transaction_size: 16384,
            max_block_header_size: 1100,
            key_deposit: 2000000,
            pool_deposit: 500000000,
            maximum_epoch: 18,
            desired_number_of_stake_pools: 500,
            pool_pledge_influence: RationalNumber {
                numerator: 3,
                denominator: 10,
            },
            expansion_rate: RationalNumber {
                numerator: 3,
                denominator: 1000,
            },
            treasury_growth_rate: RationalNumber {
                numerator: 2,
                denominator: 10,
            },
            decentralization_constant: RationalNumber {
                numerator: 0,
                denominator: 1,
            },
            extra_entropy: Nonce {
                variant: NonceVariant::NeutralNonce,
                hash: None,
            },
            protocol_version: (7, 0),
            min_pool_cost: 340000000,
            ada_per_utxo_byte: 4310,
            cost_models_for_script_languages: CostModels {
                plutus_v1: Some(vec![
                    197209, 0, 1, 1, 396231, 621, 0, 1, 150000, 1000, 0, 1, 150000, 32, 2477736,
                    29175, 4, 29773, 100, 29773, 100, 29773, 100, 29773, 100, 29773, 100, 29773,
                    100, 100, 100, 29773, 100, 150000, 32, 150000, 32, 150000, 32, 150000, 1000, 0,
                    1, 150000, 32, 150000, 1000, 0, 8, 148000, 425507, 118, 0, 1, 1, 150000, 1000,
                    0, 8, 150000, 112536, 247, 1, 150000, 10000, 1, 136542, 1326, 1, 1000, 150000,
                    1000, 1, 150000, 32, 150000, 32, 150000, 32, 1, 1, 150000, 1, 150000, 4,
                    103599, 248, 1, 103599, 248, 1, 145276, 1366, 1, 179690, 497, 1, 150000, 32,
                    150000, 32, 150000, 32, 150000, 32, 150000, 32, 150000, 32, 148000, 425507,
                    118, 0, 1, 1, 61516, 11218, 0, 1, 150000, 32, 148000, 425507, 118, 0, 1, 1,
                    148000, 425507, 118, 0, 1, 1, 2477736, 29175, 4, 0, 82363, 4, 150000, 5000, 0,
                    1, 150000, 32, 197209, 0, 1, 1, 150000, 32, 150000, 32, 150000, 32, 150000, 32,
                    150000, 32, 150000, 32, 150000, 32, 3345831, 1, 1,
                ]),

                plutus_v2: None,
            },
            execution_costs: ExUnitPrices {
                mem_price: RationalNumber {
                    numerator: 577,
                    denominator: 10000,
                },
                step_price: RationalNumber {
                    numerator: 721,
                    denominator: 10000000,
                },
            },
            max_tx_ex_units: ExUnits {
                mem: 14000000,
                steps: 10000000000,
            },
            max_block_ex_units: ExUnits {
                mem: 62000000,
                steps: 40000000000,
            },
            max_value_size: 5000,
            collateral_percentage: 150,
            max_collateral_inputs: 3,
        }
    }

}
include!(concat!(env!("OUT_DIR"), "/exu.rs"));
/// Conway, function level: the current text of check_tx_ex_units (taken out of the source by build.rs) on the Plutus V3 fixture conway5.tx with its
/// redeemers re-written in the LIST form so that one pointer is carried twice — the budget is the sum over every entry carried. Only the witness
/// set is re-assembled; the rule reads nothing else.
fn conway_duplicates(n: &mut u64) {
    use pallas_primitives::conway::{ExUnits, Redeemer, Redeemers, Tx, WitnessSet};
    use pallas_codec::minicbor;
    if !exu_conway::FOUND { println!("note: conway::check_tx_ex_units is no longer found as a function of that name — its function-level check is skipped"); return; }
    let bytes = hex::decode(std::fs::read_to_string("/repo/test_data/conway5.tx").expect("fixture conway5.tx").trim()).expect("hex");
    let tx: Tx = minicbor::decode(&bytes).expect("conway5.tx decodes");
    let ws: WitnessSet = minicbor::decode(tx.transaction_witness_set.raw_cbor()).expect("witness set decodes");
    let firsts: Vec<Redeemer> = match ws.redeemer.as_ref().map(|r| (**r).clone()) {
        Some(Redeemers::List(l)) => l,
        Some(Redeemers::Map(m)) => m.iter().map(|(k, v)| Redeemer { tag: k.tag, index: k.index, data: v.data.clone(), ex_units: v.ex_units }).collect(),
        None => { println!("note: conway5.tx carries no redeemers — Conway function-level check skipped"); return; } };
    let Some(first) = firsts.first().cloned() else { return };
    let big = ExUnits { mem: 14_000_000, steps: 10_000_000_000 };
    let mut twice = first.clone(); twice.ex_units = big;
    let (tm, ts) = (firsts.iter().map(|r| r.ex_units.mem).sum::<u64>() + big.mem, firsts.iter().map(|r| r.ex_units.steps).sum::<u64>() + big.steps);
    let mut list = vec![twice]; list.extend(firsts.iter().cloned());
    let mut w2 = ws.clone(); w2.redeemer = Some(Redeemers::List(list).into());
    let mut v = vec![0x84u8]; v.extend_from_slice(tx.transaction_body.raw_cbor()); v.extend_from_slice(&minicbor::to_vec(&w2).expect("witness set encodes")); v.push(0xf5); v.push(0xf6);
    let tx2: Tx = match minicbor::decode(&v) { Ok(t) => t, Err(e) => { println!("note: the re-assembled Conway transaction does not decode ({e}) — skipped"); return; } };
    let carried = match tx2.transaction_witness_set.redeemer.as_ref().map(|r| (**r).clone()) { Some(Redeemers::List(l)) => l.len(), _ => 0 };
    if carried != firsts.len() + 1 { println!("note: the re-assembled witness set carries {carried} list redeemers, not {} — skipped", firsts.len() + 1); return; }
    for (m, s) in [(tm, ts), (tm - 1, ts), (tm, ts - 1), (big.mem, big.steps), (tm + 1, ts + 1)] {
        let r = exu_conway::call(&tx2, &exu_conway::ConwayProtParams { max_tx_ex_units: ExUnits { mem: m, steps: s } });
        let within = tm <= m && ts <= s;
        if r.is_ok() != within { println!("VIOLATED: conway check_tx_ex_units on conway5.tx with list-form redeemers carrying pointer ({:?}, {}) twice (total mem {tm}, steps {ts}) and max_tx_ex_units = (mem {m}, steps {s}) gives {r:?}: expected {}", first.tag, first.index, if within { "acceptance" } else { "TxExUnitsExceeded" }); std::process::exit(1); }
        *n += 1;
    }
}
const TX_MEM: u64 = 3678344;
const TX_STEPS: u64 = 1304942839;
fn main() {
    let mut n = 0u64;
    let mems = [TX_MEM - 1, TX_MEM, TX_MEM + 1, TX_MEM / 10, 14_000_000];
    let stepss = [TX_STEPS - 1, TX_STEPS, TX_STEPS + 1, TX_STEPS / 10, 10_000_000_000];
    match harness::verdict_with_limits(TX_MEM, TX_STEPS) { Ok(()) => {}, Err(e) => { eprintln!("babbage4.tx is rejected at exactly its declared units ({e}): the harness is not exercising the rule"); std::process::exit(2) } }
    for m in mems { for s in stepss {
        let v = harness::verdict_with_limits(m, s);
        let within = TX_MEM <= m && TX_STEPS <= s;
        match (&v, within) {
            (Ok(()), true) => {}
            (Err(e), false) if e.contains("TxExUnitsExceeded") => {}
            _ => { println!("VIOLATED: babbage4.tx (mem {TX_MEM}, steps {TX_STEPS}) with max_tx_ex_units = (mem {m}, steps {s}) gives {v:?}: expected {}", if within { "acceptance" } else { "TxExUnitsExceeded" }); std::process::exit(1) }
        }
        n += 1;
    } }
    conway_duplicates(&mut n);
    println!("checked {n} pairs of execution-unit limits around the transaction's declared units");
}
