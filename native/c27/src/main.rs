//! bounded(every sequence of at most DEPTH (default 5) events over 2 peers from the alphabet {Include(p), Housekeeping,
//! Connected(p), Disconnected(p), Error(p), protocol violation by p, DemotePeer(p)}, limits max_peers=3/warm=2/hot=1/errors=1):
//! after every step the cold/warm/hot/banned sets of the real PromotionBehavior are pairwise disjoint and within their limits,
//! a banned peer stays banned, and no Connect is emitted for a peer that is in the banned set.
//! Exit 1 and print the first failing sequence if not.
use futures::StreamExt;
use pallas_network2::behavior::{AnyMessage, InitiatorBehavior, InitiatorCommand, PromotionBehavior, PromotionConfig};
use pallas_network2::protocol::keepalive;
use pallas_network2::{Behavior, BehaviorOutput, InterfaceCommand, InterfaceError, InterfaceEvent, PeerId};

fn pid(n: u16) -> PeerId { PeerId { host: format!("10.0.0.{n}"), port: 3000 + n } }

#[derive(Clone, Copy, Debug)]
enum Ev { Include(u16), House, Connected(u16), Disconnected(u16), Error(u16), Violation(u16), Demote(u16), Ban(u16) }

fn alphabet() -> Vec<Ev> {
    let mut v = vec![Ev::House];
    for p in 1..=2u16 { v.extend([Ev::Include(p), Ev::Connected(p), Ev::Disconnected(p), Ev::Error(p), Ev::Violation(p), Ev::Demote(p), Ev::Ban(p)]); }
    v
}

fn fresh() -> InitiatorBehavior {
    InitiatorBehavior {
        promotion: PromotionBehavior::new(PromotionConfig { max_peers: 3, max_warm_peers: 2, max_hot_peers: 1, max_error_count: 1 }),
        ..Default::default()
    }
}

fn drain_connects(b: &mut InitiatorBehavior) -> Vec<PeerId> {
    let waker = futures::task::noop_waker();
    let mut cx = std::task::Context::from_waker(&waker);
    let mut out = Vec::new();
    while let std::task::Poll::Ready(Some(o)) = b.poll_next_unpin(&mut cx) {
        if let BehaviorOutput::InterfaceCommand(InterfaceCommand::Connect(p)) = o { out.push(p); }
    }
    out
}

fn apply(b: &mut InitiatorBehavior, e: Ev) {
    match e {
        Ev::Include(p) => b.execute(InitiatorCommand::IncludePeer(pid(p))),
        Ev::House => b.execute(InitiatorCommand::Housekeeping),
        Ev::Demote(p) => b.execute(InitiatorCommand::DemotePeer(pid(p))),
        Ev::Ban(p) => b.execute(InitiatorCommand::BanPeer(pid(p))),
        Ev::Connected(p) => b.handle_io(InterfaceEvent::Connected(pid(p))),
        Ev::Disconnected(p) => b.handle_io(InterfaceEvent::Disconnected(pid(p))),
        Ev::Error(p) => b.handle_io(InterfaceEvent::Error(pid(p), InterfaceError::Other("boom".into()))),
        Ev::Violation(p) => b.handle_io(InterfaceEvent::Recv(pid(p), vec![AnyMessage::KeepAlive(keepalive::Message::ResponseKeepAlive(42))])),
    }
}

fn check(b: &mut InitiatorBehavior, banned_before: &std::collections::HashSet<PeerId>, cmd_banned: &std::collections::HashSet<PeerId>) -> Option<String> {
    let connects = drain_connects(b);
    let p = &b.promotion;
    let sets = [("cold", &p.cold_peers), ("warm", &p.warm_peers), ("hot", &p.hot_peers), ("banned", &p.banned_peers)];
    for i in 0..4 { for j in (i + 1)..4 {
        if let Some(x) = sets[i].1.intersection(sets[j].1).next() { return Some(format!("{} and {} both contain {x}", sets[i].0, sets[j].0)); }
    } }
    if p.warm_peers.len() > 2 { return Some(format!("{} warm peers exceed the limit 2", p.warm_peers.len())); }
    if p.hot_peers.len() > 1 { return Some(format!("{} hot peers exceed the limit 1", p.hot_peers.len())); }
    if p.cold_peers.len() + p.warm_peers.len() + p.hot_peers.len() > 3 { return Some("tracked peers exceed max_peers 3".into()); }
    for x in banned_before { if !p.banned_peers.contains(x) { return Some(format!("{x} was banned and is no longer")); } }
    for c in connects {
        if banned_before.contains(&c) || p.banned_peers.contains(&c) { return Some(format!("Connect emitted for banned peer {c}")); }
        if cmd_banned.contains(&c) { return Some(format!("Connect emitted for {c}, which was banned by an explicit BanPeer command")); }
    }
    None
}

fn run(seq: &[Ev]) -> Option<(usize, String)> {
    let mut b = fresh();
    let mut cmd_banned = std::collections::HashSet::new();
    for (i, e) in seq.iter().enumerate() {
        let banned_before = b.promotion.banned_peers.clone();
        let r = std::panic::catch_unwind(std::panic::AssertUnwindSafe(|| apply(&mut b, *e)));
        if r.is_err() { return Some((i, "panic".into())); }
        if let Some(msg) = check(&mut b, &banned_before, &cmd_banned) { return Some((i, msg)); }
        if let Ev::Ban(p) = e { cmd_banned.insert(pid(*p)); }
    }
    None
}

#[tokio::main(flavor = "current_thread")]
async fn main() {
    std::panic::set_hook(Box::new(|_| {}));
    let depth: usize = std::env::args().nth(1).and_then(|x| x.parse().ok()).unwrap_or(5);
    let alpha = alphabet();
    let mut n = 0u64;
    // enumerate by length so that the shortest failing sequence is reported
    for len in 1..=depth {
        let mut idx = vec![0usize; len];
        loop {
            let seq: Vec<Ev> = idx.iter().map(|&i| alpha[i]).collect();
            n += 1;
            if let Some((i, msg)) = run(&seq) {
                println!("VIOLATED: after step {} of {:?}: {msg}", i + 1, seq);
                std::process::exit(1);
            }
            let mut k = len;
            loop {
                if k == 0 { break; }
                k -= 1;
                idx[k] += 1;
                if idx[k] < alpha.len() { break; }
                idx[k] = 0;
                if k == 0 { k = usize::MAX; break; }
            }
            if k == usize::MAX { break; }
        }
    }
    println!("checked {n} event sequences of length <= {depth}: promotion sets consistent, banned peers stay away");
}
