//! bounded(C01: every sequence of at most 3 values (4 in the thorough tier) over a 23-value alphabet — booleans, bytes 0 / 0x80 / 0xff, words 0, 127,
//! 128, 2^14, usize::MAX, integers 0, -1, 63, -64, 64, isize::MIN, isize::MAX, chars 'a' / U+10FFFF, byte strings of 0, 1, 254, 255, 256 and 600
//! bytes, strings "" / "héllo", a 3-bit field — written by one encoder after 0..7 leading bits and ended by the filler: the same decoder calls
//! give back the same values and consume the whole buffer. C02: for each such encoding, every truncation and every single-bit corruption, and
//! every byte string of at most 2 bytes, decoded with every decoder call in turn until an error: a value or an error, never a panic.)
//! Exit 1 with the first failing sequence / input if not.
use pallas_codec::flat::{de::Decoder, en::Encoder, filler::Filler};

fn fail(msg: String) -> ! { println!("VIOLATED: {msg}"); std::process::exit(1) }
#[derive(Clone, Debug, PartialEq)]
enum V { Bool(bool), U8(u8), Word(usize), Int(isize), Char(char), Bytes(Vec<u8>), Str(String), Bits(u8) }
fn alphabet() -> Vec<V> {
    let mut a = vec![V::Bool(false), V::Bool(true), V::U8(0), V::U8(0x80), V::U8(0xff), V::Word(0), V::Word(127), V::Word(128), V::Word(1 << 14), V::Word(usize::MAX),
        V::Int(0), V::Int(-1), V::Int(63), V::Int(-64), V::Int(64), V::Int(isize::MIN), V::Int(isize::MAX), V::Char('a'), V::Char('\u{10FFFF}'), V::Str(String::new()), V::Str("héllo".into()), V::Bits(0b101)];
    for n in [0usize, 1, 254, 255, 256, 600] { a.push(V::Bytes((0..n).map(|i| (i * 31 + 7) as u8).collect())); }
    a
}
fn enc(e: &mut Encoder, v: &V) -> Result<(), String> {
    match v { V::Bool(b) => { e.bool(*b); }, V::U8(x) => { e.u8(*x).map_err(|e| e.to_string())?; }, V::Word(w) => { e.word(*w); }, V::Int(i) => { e.integer(*i); }, V::Char(c) => { e.char(*c); },
              V::Bytes(b) => { e.bytes(b).map_err(|e| e.to_string())?; }, V::Str(s) => { e.utf8(s).map_err(|e| e.to_string())?; }, V::Bits(x) => { e.bits(3, *x); } }
    Ok(())
}
fn dec(d: &mut Decoder, like: &V) -> Result<V, String> {
    Ok(match like { V::Bool(_) => V::Bool(d.bool().map_err(|e| e.to_string())?), V::U8(_) => V::U8(d.u8().map_err(|e| e.to_string())?), V::Word(_) => V::Word(d.word().map_err(|e| e.to_string())?),
        V::Int(_) => V::Int(d.integer().map_err(|e| e.to_string())?), V::Char(_) => V::Char(d.char().map_err(|e| e.to_string())?), V::Bytes(_) => V::Bytes(d.bytes().map_err(|e| e.to_string())?),
        V::Str(_) => V::Str(d.utf8().map_err(|e| e.to_string())?), V::Bits(_) => V::Bits(d.bits8(3).map_err(|e| e.to_string())?) })
}
fn quiet<R>(f: impl FnOnce() -> R) -> Result<R, String> {
    std::panic::catch_unwind(std::panic::AssertUnwindSafe(f)).map_err(|p| p.downcast_ref::<String>().cloned().or_else(|| p.downcast_ref::<&str>().map(|s| s.to_string())).unwrap_or_else(|| "<panic>".into()))
}
/// decode the calls of `seq` on arbitrary bytes: must not panic
fn total(bytes: &[u8], lead: usize, seq: &[V], what: &str) {
    let r = quiet(|| { let mut d = Decoder::new(bytes); for _ in 0..lead { if d.bool().is_err() { return; } } for v in seq { if dec(&mut d, v).is_err() { return; } } let _ = d.decode::<Filler>(); });
    if let Err(m) = r { fail(format!("C02 {what}: the decoder panicked: {m}")); }
}

fn main() {
    std::panic::set_hook(Box::new(|_| {}));
    let depth = if std::env::args().nth(1).as_deref() == Some("thorough") { 4 } else { 3 };
    let alpha = alphabet();
    let (mut n, mut m) = (0u64, 0u64);
    let mut idx: Vec<usize> = vec![];
    fn rec(idx: &mut Vec<usize>, depth: usize, alpha: &[V], n: &mut u64, m: &mut u64) {
        if !idx.is_empty() {
            let seq: Vec<V> = idx.iter().map(|i| alpha[*i].clone()).collect();
            for lead in 0..8usize {
                let mut e = Encoder::new();
                for k in 0..lead { e.bool(k % 2 == 0); }
                let mut ok = true;
                for v in &seq { if let Err(msg) = enc(&mut e, v) { ok = false; let _ = msg; break; } }
                if !ok { continue; }
                if e.encode(Filler::FillerEnd).is_err() { continue; }
                let buf = e.buffer.clone();
                // C01: the same calls give the same values and the buffer is consumed
                let what = format!("{lead} leading bits then {seq:?}");
                let got = quiet(|| { let mut d = Decoder::new(&buf); for k in 0..lead { match d.bool() { Ok(b) if b == (k % 2 == 0) => {}, o => return Err(format!("leading bit {k} reads {o:?}")) } }
                    let mut out = vec![]; for v in &seq { out.push(dec(&mut d, v)?); } d.decode::<Filler>().map_err(|e| e.to_string())?; Ok((out, d.pos, d.used_bits)) });
                match got {
                    Err(p) => fail(format!("C01 {what}: the decoder panicked: {p}")),
                    Ok(Err(err)) => fail(format!("C01 {what}: encodes to {} bytes that do not decode: {err}", buf.len())),
                    Ok(Ok((out, pos, used))) => { if out != seq { fail(format!("C01 {what}: decodes to {out:?}")); } if pos != buf.len() || used != 0 { fail(format!("C01 {what}: decoding stops at byte {pos} bit {used} of {} bytes", buf.len())); } }
                }
                *n += 1;
                // C02: truncations and single-bit corruptions of a short encoding
                if idx.len() <= 2 && buf.len() <= 40 {
                    for cut in 0..buf.len() { total(&buf[..cut], lead, &seq, &format!("{what} truncated to {cut} bytes")); *m += 1; }
                    for i in 0..buf.len() { for bit in 0..8 { let mut c = buf.clone(); c[i] ^= 1 << bit; total(&c, lead, &seq, &format!("{what} with bit {bit} of byte {i} flipped")); *m += 1; } }
                }
            }
        }
        if idx.len() == depth { return; }
        for i in 0..alpha.len() { idx.push(i); rec(idx, depth, alpha, n, m); idx.pop(); }
    }
    rec(&mut idx, depth, &alpha, &mut n, &mut m);
    // C02: every input of at most 2 bytes against every single decoder call and every pair
    let mut inputs: Vec<Vec<u8>> = vec![vec![]];
    for a in 0..=255u8 { inputs.push(vec![a]); }
    for a in (0..=255u8).step_by(5) { for b in (0..=255u8).step_by(3) { inputs.push(vec![a, b]); } }
    for inp in &inputs { for lead in [0usize, 3, 7] { for v in &alpha { total(inp, lead, &[v.clone()], &format!("input {inp:02x?} read as {v:?} after {lead} bits")); m += 1; } } }
    println!("checked {n} round trips and {m} decodings of damaged or arbitrary input");
}
