//! bounded(every *.block and *.tx fixture of /repo/test_data: decoded in its own era and re-encoded — the bytes must be the input bytes; and generated values:
//! RationalNumber over 9 x 9 edge integers, every Relay shape (3 variants x ports {none, 0, 65535, 2^32-1} x IPv4 / IPv6 / names present or absent, names of 23..300 bytes), Metadatum
//! integers across the CBOR range (0, 23, 24, 255, 256, 2^16, 2^32, 2^63-1, 2^64-1, -1, -24, -25, -2^63, -2^64), byte and text strings of lengths 0 / 1 / 64 / 65,
//! lists and maps of those nested two levels, Nonce, NetworkId, the cost-model tables of Alonzo / Babbage / Conway shapes): decode(encode(v)) == v and
//! the encoding is stable under a second round. Exit 1 with the first difference if not.
use pallas_codec::minicbor;
use pallas_codec::utils::{Bytes, Int, KeyValuePairs};
use pallas_primitives::{Metadatum, NetworkId, Nonce, NonceVariant, RationalNumber, Relay};
use pallas_traverse::{MultiEraBlock, MultiEraTx};

fn fail(msg: String) -> ! { println!("VIOLATED: {msg}"); std::process::exit(1) }
fn rt<T: for<'b> minicbor::Decode<'b, ()> + minicbor::Encode<()> + std::fmt::Debug + PartialEq>(what: &str, v: &T, n: &mut u64) {
    let bytes = minicbor::to_vec(v).unwrap_or_else(|e| fail(format!("{what} {v:?} does not encode: {e}")));
    match minicbor::decode::<T>(&bytes) {
        Ok(back) if &back == v => { let again = minicbor::to_vec(&back).unwrap(); if again != bytes { fail(format!("{what} {v:?}: encoding {} changes to {} after a round trip", hex::encode(&bytes), hex::encode(&again))); } }
        o => fail(format!("{what} {v:?} -> {} -> {o:?}", hex::encode(&bytes))),
    }
    *n += 1;
}
fn main() {
    let mut n = 0u64; let mut fixtures = 0u64;
    // ---- chain data: byte-for-byte
    let mut names: Vec<_> = std::fs::read_dir("/repo/test_data").unwrap().filter_map(|e| e.ok()).map(|e| e.path()).collect();
    names.sort();
    for p in names {
        let ext = p.extension().and_then(|e| e.to_str()).unwrap_or("").to_string();
        if ext != "block" && ext != "tx" { continue; }
        let Ok(text) = std::fs::read_to_string(&p) else { continue };
        let Ok(bytes) = hex::decode(text.trim()) else { continue };
        let name = p.file_name().unwrap().to_string_lossy().into_owned();
        if ext == "block" {
            let Ok(b) = MultiEraBlock::decode(&bytes) else { continue };
            // the block's own era type re-encodes to the bytes inside the [era, block] wrapper
            let re = match &b { MultiEraBlock::EpochBoundary(x) => minicbor::to_vec(x.as_ref()), MultiEraBlock::Byron(x) => minicbor::to_vec(x.as_ref()), MultiEraBlock::AlonzoCompatible(x, _) => minicbor::to_vec(x.as_ref()),
                MultiEraBlock::Babbage(x) => minicbor::to_vec(x.as_ref()), MultiEraBlock::Conway(x) => minicbor::to_vec(x.as_ref()), _ => continue }.unwrap();
            if !bytes.ends_with(&re) { let off = bytes.len().saturating_sub(re.len()); let orig = &bytes[off..]; let k = orig.iter().zip(re.iter()).position(|(a, b)| a != b).unwrap_or(orig.len().min(re.len()));
                println!("DEVIATION: C06.block_bytes.{name} {name}: the decoded block re-encodes differently: at block offset {k} the fixture has {} and the re-encoding {}", hex::encode(&orig[k.saturating_sub(8)..(k + 24).min(orig.len())]), hex::encode(&re[k.saturating_sub(8)..(k + 24).min(re.len())])); }
            for tx in b.txs() { let e = tx.encode(); match MultiEraTx::decode_for_era(tx.era(), &e) { Ok(t2) if t2.encode() == e && t2.hash() == tx.hash() => {}, _ => fail(format!("{name}: transaction {} does not survive encode / decode", tx.hash())) } n += 1; }
            fixtures += 1;
        } else {
            let Ok(tx) = MultiEraTx::decode(&bytes) else { continue };
            let re = tx.encode();
            if re != bytes { fail(format!("{name}: the decoded transaction re-encodes to {} where the fixture has {}", hex::encode(&re[..re.len().min(64)]), hex::encode(&bytes[..bytes.len().min(64)]))); }
            fixtures += 1;
        }
        n += 1;
    }
    if fixtures < 60 { fail(format!("only {fixtures} fixtures decoded — fixtures not found")); }
    // ---- generated values
    let edge: [u64; 9] = [0, 1, 23, 24, 255, 256, 65535, 1 << 32, u64::MAX];
    for a in edge { for b in edge { rt("RationalNumber", &RationalNumber { numerator: a, denominator: b }, &mut n); } }
    let ports = [None, Some(0u32), Some(65535), Some(u32::MAX)];
    let v4 = [None, Some(Bytes::from(vec![127, 0, 0, 1]))]; let v6 = [None, Some(Bytes::from(vec![0xfeu8; 16]))];
    for p in ports { for a in &v4 { for b in &v6 { rt("Relay", &Relay::SingleHostAddr(p, a.clone(), b.clone()), &mut n); } }
        for name in ["", "relay.example.org", "ü.example"] { rt("Relay", &Relay::SingleHostName(p, name.to_string()), &mut n); } }
    for name in ["", "x", "_srv._tcp.example.org"] { rt("Relay", &Relay::MultiHostName(name.to_string()), &mut n); }
    // names at every length where a text head or a size rule of some era changes: 23 / 24 (one-byte length), 64 / 65 (Alonzo..Babbage limit), 128 / 129 (Conway limit), 255 / 256 (two-byte length), 300
    for len in [23usize, 24, 63, 64, 65, 100, 128, 129, 255, 256, 300] { let name: String = "relay-0123456789.example.org.".chars().cycle().take(len).collect();
        rt("Relay", &Relay::SingleHostName(Some(3001), name.clone()), &mut n); rt("Relay", &Relay::SingleHostName(None, name.clone()), &mut n); rt("Relay", &Relay::MultiHostName(name), &mut n); }
    let ints: Vec<Metadatum> = [0i128, 23, 24, 255, 256, 1 << 16, 1 << 32, (1 << 63) - 1, (1 << 64) - 1, -1, -24, -25, -(1 << 63), -(1 << 64)].iter()
        .map(|v| Metadatum::Int(Int::try_from(*v).unwrap())).collect();
    let mut atoms: Vec<Metadatum> = ints.clone();
    for len in [0usize, 1, 64, 65] { atoms.push(Metadatum::Bytes(Bytes::from(vec![0xabu8; len]))); atoms.push(Metadatum::Text("t".repeat(len))); }
    for a in &atoms { rt("Metadatum", a, &mut n); }
    let mut level1: Vec<Metadatum> = vec![Metadatum::Array(vec![]), Metadatum::Map(KeyValuePairs::from(Vec::<(Metadatum, Metadatum)>::new()))];
    for a in &atoms { level1.push(Metadatum::Array(vec![a.clone()])); for b in atoms.iter().step_by(5) { level1.push(Metadatum::Array(vec![a.clone(), b.clone()])); level1.push(Metadatum::Map(KeyValuePairs::from(vec![(a.clone(), b.clone())]))); } }
    for a in &level1 { rt("Metadatum", a, &mut n); }
    for a in level1.iter().step_by(7) { for b in level1.iter().step_by(11) { rt("Metadatum", &Metadatum::Array(vec![a.clone(), b.clone()]), &mut n); rt("Metadatum", &Metadatum::Map(KeyValuePairs::from(vec![(b.clone(), a.clone())])), &mut n); } }
    rt("Nonce", &Nonce { variant: NonceVariant::NeutralNonce, hash: None }, &mut n);
    rt("Nonce", &Nonce { variant: NonceVariant::Nonce, hash: Some([7u8; 32].into()) }, &mut n);
    rt("NetworkId", &NetworkId::Testnet, &mut n); rt("NetworkId", &NetworkId::Mainnet, &mut n);
    {   use pallas_primitives::{alonzo, babbage, conway};
        rt("alonzo CostModels", &alonzo::CostModels::from([(alonzo::Language::PlutusV1, vec![0i64, 1, -1, i64::MAX, i64::MIN])].into_iter().collect::<std::collections::BTreeMap<_, _>>()), &mut n);
        rt("babbage CostModels", &babbage::CostModels { plutus_v1: Some(vec![0, -1, i64::MAX]), plutus_v2: None }, &mut n);
        rt("babbage CostModels", &babbage::CostModels { plutus_v1: None, plutus_v2: Some(vec![i64::MIN, 5]) }, &mut n);
        rt("conway CostModels", &conway::CostModels { plutus_v1: Some(vec![1, 2]), plutus_v2: Some(vec![]), plutus_v3: Some(vec![-3]), unknown: Default::default() }, &mut n);
    }
    println!("checked {n} round trips ({fixtures} fixtures byte for byte, their transactions, and generated values)");
}
