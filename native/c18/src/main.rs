//! bounded(the 8 Shelley address types and the 2 stake address types on all 16 network ids, with 6 pointer triples incl. the u64
//! extremes: 320 addresses): to_vec starts with the header (type << 4 | network) followed by the parts; from_bytes(to_vec) is the
//! address; to_hex is the hex of to_vec and from_hex reads it back; the textual form (bech32 on networks 0/1, hex otherwise) reads
//! back through from_str / from_bech32. Exit 1 with the first failing address if not.
use std::str::FromStr;
use pallas_addresses::{Address, Network, Pointer, ShelleyAddress, ShelleyDelegationPart, ShelleyPaymentPart, StakeAddress, StakePayload};
use pallas_crypto::hash::Hash;

fn h(seed: u8) -> Hash<28> { let mut b = [0u8; 28]; for (i, x) in b.iter_mut().enumerate() { *x = seed.wrapping_mul(31).wrapping_add(i as u8); } b.into() }
fn fail(what: &str, a: &Address, detail: String) -> ! { println!("VIOLATED: {what}: address type {} on network {:?}: {detail}", a.typeid(), a.network()); std::process::exit(1) }

fn main() {
    let pointers = [(0u64, 0u64, 0u64), (1, 2, 3), (127, 128, 129), (2498243, 27, 3), (u32::MAX as u64, 16384, 1 << 35), (u64::MAX, u64::MAX - 1, 1 << 63)];
    let mut n = 0u64;
    for net in 0u8..16 {
        let network = Network::from(net);
        let mut addrs: Vec<(Address, u8)> = Vec::new();
        for (pi, p) in [ShelleyPaymentPart::key_hash(h(1)), ShelleyPaymentPart::script_hash(h(2))].into_iter().enumerate() {
            addrs.push((ShelleyAddress::new(network, p.clone(), ShelleyDelegationPart::key_hash(h(3))).into(), pi as u8));
            addrs.push((ShelleyAddress::new(network, p.clone(), ShelleyDelegationPart::script_hash(h(4))).into(), 2 + pi as u8));
            for (a, b, c) in pointers { addrs.push((ShelleyAddress::new(network, p.clone(), ShelleyDelegationPart::Pointer(Pointer::new(a, b, c))).into(), 4 + pi as u8)); }
            addrs.push((ShelleyAddress::new(network, p.clone(), ShelleyDelegationPart::Null).into(), 6 + pi as u8));
        }
        addrs.push((StakeAddress::new(network, StakePayload::Stake(h(5))).into(), 14));
        addrs.push((StakeAddress::new(network, StakePayload::Script(h(6))).into(), 15));
        for (a, ty) in &addrs {
            let bytes = a.to_vec();
            if bytes.is_empty() || bytes[0] != (ty << 4 | net) { fail("header byte", a, format!("to_vec starts with {:02x?}, expected {:02x}", bytes.first(), ty << 4 | net)); }
            if a.typeid() != *ty { fail("typeid", a, format!("expected {ty}")); }
            match Address::from_bytes(&bytes) { Ok(b) if b == *a => {}, o => fail("from_bytes(to_vec)", a, format!("{} -> {:?}", hex::encode(&bytes), o.map(|x| x.to_hex()))) }
            let hx = a.to_hex();
            if hx != hex::encode(&bytes) { fail("to_hex", a, format!("{hx} is not the hex of to_vec {}", hex::encode(&bytes))); }
            match Address::from_hex(&hx) { Ok(b) if b == *a => {}, o => fail("from_hex(to_hex)", a, format!("{hx} -> {:?}", o.map(|x| x.to_hex()))) }
            let text = a.to_string();
            match Address::from_str(&text) { Ok(b) if b == *a => {}, o => fail("from_str(to_string)", a, format!("{text} -> {:?}", o.map(|x| x.to_hex()))) }
            if net <= 1 {
                match a.to_bech32() { Ok(t) => match Address::from_bech32(&t) { Ok(b) if b == *a => {}, o => fail("from_bech32(to_bech32)", a, format!("{t} -> {:?}", o.map(|x| x.to_hex()))) }, Err(e) => fail("to_bech32", a, format!("{e:?}")) }
            }
            n += 1;
        }
    }
    println!("checked {n} addresses: header, bytes, hex and text round trips");
}
