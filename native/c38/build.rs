//! Takes the set-ups of the accepted transactions out of pallas-validate's own integration tests, mechanically:
//! every `fn successful_*` keeps its body (fixture, UTxO set, parameters, environment) and its final `validate_txs(..)` call is redirected to
//! `crate::probe("<name>", ..)`, which runs the rule mutators on that accepted case. Nothing else of the test files is called.
use std::{env, fs, path::Path};
fn main() {
    let out = env::var("OUT_DIR").unwrap();
    let mut calls = String::new();
    for era in ["byron", "shelley_ma", "alonzo", "babbage", "conway"] {
        let path = format!("/repo/pallas-validate/tests/{era}.rs");
        println!("cargo:rerun-if-changed={path}");
        let src = fs::read_to_string(&path).unwrap();
        let mut g = String::new();
        let mut cur: Option<String> = None;
        let mut modname = String::new();
        for line in src.lines() {
            let t = line.trim_start();
            if t.starts_with("pub mod common;") || t.starts_with("mod common;") { continue; }
            if t.starts_with("#[test]") || t.starts_with("#[should_panic") || t.starts_with("#[cfg(test)]") { continue; }
            if t.starts_with("mod ") && t.ends_with('{') && modname.is_empty() {
                modname = t[4..t.len() - 1].trim().to_string();
                g.push_str(&format!("#[allow(unused, dead_code, clippy::all)]\npub mod {modname} {{\n"));
                continue;
            }
            let mut l = line.replace("include_str!(\"../../test_data/", "include_str!(\"/repo/test_data/");
            if t.starts_with("use common::") { l = l.replacen("use common::", "use crate::common::", 1); }
            if t.starts_with("fn ") {
                let name = t[3..].split('(').next().unwrap().trim().to_string();
                l = l.replacen("fn ", "pub fn ", 1);
                if name.starts_with("successful_") {
                    calls.push_str(&format!("    crate::set_case(\"{era}::{name}\"); {era}::{modname}::{name}();\n"));
                    cur = Some(name);
                } else { cur = None; }
            }
            if cur.is_some() && l.contains("validate_txs(") {
                l = l.replace("validate_txs(", "crate::probe(");
            }
            g.push_str(&l); g.push('\n');
        }
        fs::write(Path::new(&out).join(format!("{era}.rs")), g).unwrap();
    }
    // the redeemer-coverage functions, text taken verbatim from the phase-1 sources (brace-matched from `fn <name>(`, line comments skipped), only `pub ` put in front:
    // they are private, so the native checks this copy of their current text on a small exhaustive domain. A name that is no longer there
    // yields `FOUND = false` and the native says so instead of judging anything.
    let mut cov = String::new();
    for (era, file, name, ty, errs) in [
        ("alonzo", "alonzo.rs", "redeemer_pointers_coincide", "pallas_primitives::alonzo::RedeemerPointer", "AlonzoError"),
        ("babbage", "babbage.rs", "redeemer_pointers_coincide", "pallas_primitives::alonzo::RedeemerPointer", "PostAlonzoError"),
        ("conway", "conway.rs", "redeemer_key_coincide", "pallas_primitives::conway::RedeemersKey", "PostAlonzoError"),
    ] {
        let path = format!("/repo/pallas-validate/src/phase1/{file}");
        println!("cargo:rerun-if-changed={path}");
        let src = fs::read_to_string(&path).unwrap();
        let text = src.find(&format!("\nfn {name}(")).and_then(|at| {
            let open = at + src[at..].find(") -> ValidationResult {")? + ") -> ValidationResult ".len();
            let (mut depth, mut end) = (0i32, None);
            let mut in_comment = false; let mut prev = ' ';
            for (i, ch) in src[open..].char_indices() {
                if in_comment { if ch == '\n' { in_comment = false; } }
                else if ch == '/' && prev == '/' { in_comment = true; }
                else if ch == '{' { depth += 1; } else if ch == '}' { depth -= 1; if depth == 0 { end = Some(open + i + 1); break; } }
                prev = ch;
            }
            Some(src[at + 1..end?].to_string())
        });
        let ident = ty.rsplit("::").next().unwrap();
        match text {
            Some(t) if !t.contains('"') && !t.contains("'{'") && !t.contains("'}'") && !t.contains("/*") => cov.push_str(&format!(
                "#[allow(unused, dead_code, clippy::all)]\npub mod cov_{era} {{ use {ty}; use pallas_validate::utils::{{ValidationError::*, {errs}::*, ValidationResult}}; pub type Key = {ident}; pub const FOUND: bool = true; pub const NAME: &str = \"{era}::{name}\";\npub {t}\npub fn call(a: &[Key], b: &[Key]) -> ValidationResult {{ {name}(a, b) }} }}\n")),
            _ => cov.push_str(&format!(
                "pub mod cov_{era} {{ use pallas_validate::utils::ValidationResult; pub type Key = {ty}; pub const FOUND: bool = false; pub const NAME: &str = \"{era}::{name}\"; pub fn call(_: &[Key], _: &[Key]) -> ValidationResult {{ Ok(()) }} }}\n")),
        }
    }
    fs::write(Path::new(&out).join("coverage.rs"), cov).unwrap();
    fs::write(Path::new(&out).join("run_all.rs"), format!("pub fn run_all() {{\n{calls}}}\n")).unwrap();
}
