//! bounded(every accepted case of pallas-validate's own test suites — Byron, Shelley, Allegra, Mary, Alonzo, Babbage, Conway; set-ups taken mechanically by
//! build.rs — under these rule mutators, each applied alone: an input / collateral input / reference input taken out of the UTxO set; the block slot
//! moved past the upper validity bound / before the lower one; the other network id; a minimum-ada parameter no output reaches; a maximum value size
//! of 0; a maximum transaction size of 0; a minimum fee above the fee; for script transactions a maximum of 0 collateral inputs, a collateral
//! percentage no collateral reaches; and, on the unsigned parts of the transaction re-assembled around the untouched body bytes: the vkey witnesses / native
//! scripts / each Plutus script list / the datums / the redeemers taken out of the witness set, the auxiliary data replaced, dropped or added). The mutated
//! case must be REJECTED. And on single UTxO entries (address or ada amount edited, everything else of the entry kept): each key-locked spent entry turned
//! into a script-locked one (no such script is witnessed); for script transactions each collateral entry turned script-locked, and the collateral balance
//! set ONE lovelace below the exact minimum ceil(fee x percentage / 100) with a percentage for which that minimum is not a whole number of hundredths. Exit 1 with the first accepted
//! mutation if not.
#[path = "/repo/pallas-validate/tests/common.rs"]
#[allow(dead_code, unused_imports)]
pub mod common;
pub mod byron { include!(concat!(env!("OUT_DIR"), "/byron.rs")); }
pub mod shelley_ma { include!(concat!(env!("OUT_DIR"), "/shelley_ma.rs")); }
pub mod alonzo { include!(concat!(env!("OUT_DIR"), "/alonzo.rs")); }
pub mod babbage { include!(concat!(env!("OUT_DIR"), "/babbage.rs")); }
pub mod conway { include!(concat!(env!("OUT_DIR"), "/conway.rs")); }
include!(concat!(env!("OUT_DIR"), "/run_all.rs"));
include!(concat!(env!("OUT_DIR"), "/coverage.rs"));

use pallas_traverse::{MultiEraInput, MultiEraOutput, MultiEraTx};
use pallas_validate::phase1::validate_txs;
use pallas_validate::utils::{CertState, Environment, MultiEraProtocolParameters as PP, UTxOs, ValidationResult};
use std::cell::{Cell, RefCell};

thread_local! { static CASE: RefCell<String> = RefCell::new(String::new()); static N: Cell<u64> = Cell::new(0); static CASES: Cell<u64> = Cell::new(0); }
pub fn set_case(name: &str) { CASE.with(|c| *c.borrow_mut() = name.to_string()); }
fn fail(msg: String) -> ! { println!("VIOLATED: {msg}"); std::process::exit(1) }

fn env_with(env: &Environment, f: impl FnOnce(&mut Environment)) -> Environment {
    let mut e = Environment { prot_params: env.prot_params.clone(), prot_magic: env.prot_magic, block_slot: env.block_slot, network_id: env.network_id, acnt: env.acnt.as_ref().map(|a| pallas_validate::utils::AccountState { treasury: a.treasury, reserves: a.reserves }) };
    f(&mut e); e
}
fn must_reject(what: &str, txs: &[MultiEraTx], env: &Environment, utxos: &UTxOs, cs: &CertState) {
    let case = CASE.with(|c| c.borrow().clone());
    let r = std::panic::catch_unwind(std::panic::AssertUnwindSafe(|| validate_txs(txs, env, utxos, &mut cs.clone())));
    match r {
        Ok(Err(_)) => N.with(|n| n.set(n.get() + 1)),
        Ok(Ok(())) => fail(format!("{case}: still ACCEPTED after this change alone: {what}")),
        // a panic is not an acceptance; totality is another property (C33) — counted, reported at the end
        Err(_) => { N.with(|n| n.set(n.get() + 1)); println!("note: {case}: validation panicked under: {what}"); }
    }
}

/// the unsigned parts of a post-Byron transaction changed, the body bytes (and so every signature) untouched
macro_rules! witness_mutants {
    ($era:expr, $mtx:expr, $ws:ty, [$($field:ident),*], $txs:expr, $env:expr, $utxos:expr, $cs:expr) => {{
        use pallas_codec::utils::Nullable;
        let mtx = $mtx;
        let body: Vec<u8> = mtx.transaction_body.raw_cbor().to_vec();
        let wits_raw: Vec<u8> = mtx.transaction_witness_set.raw_cbor().to_vec();
        let aux_raw: Option<Vec<u8>> = match &mtx.auxiliary_data { Nullable::Some(a) => Some(a.raw_cbor().to_vec()), _ => None };
        let success = mtx.success;
        let assemble = |w: &[u8], aux: Option<&[u8]>| -> Vec<u8> { let mut v = vec![0x84u8]; v.extend_from_slice(&body); v.extend_from_slice(w); v.push(if success { 0xf5 } else { 0xf4 }); match aux { Some(a) => v.extend_from_slice(a), None => v.push(0xf6) } v };
        let run = |what: &str, bytes: &[u8], want_reject: bool| -> bool {
            match MultiEraTx::decode_for_era($era, bytes) {
                Ok(t) => { if want_reject { must_reject(what, &[t], $env, $utxos, $cs); true } else { validate_txs(&[t], $env, $utxos, &mut $cs.clone()).is_ok() } }
                Err(_) => { if want_reject { N.with(|n| n.set(n.get() + 1)); } false }   // an undecodable mutant is rejected before validation
            }
        };
        // control: the re-assembled, unchanged transaction and the re-encoded unchanged witness set are still accepted (else this family says nothing)
        let ws0: $ws = pallas_codec::minicbor::decode(&wits_raw).expect("witness set decodes");
        let re = pallas_codec::minicbor::to_vec(&ws0).unwrap();
        if run("control", &assemble(&wits_raw, aux_raw.as_deref()), false) && run("control (re-encoded witness set)", &assemble(&re, aux_raw.as_deref()), false) {
            $( if ws0.$field.as_ref().is_some_and(|f| { let e = pallas_codec::minicbor::to_vec(f).unwrap(); !(e == [0x80] || e == [0xa0] || e == [0x9f, 0xff] || e == [0xd9, 0x01, 0x02, 0x80]) }) { let mut w = ws0.clone(); w.$field = None; let b = pallas_codec::minicbor::to_vec(&w).unwrap();
                run(concat!("`", stringify!($field), "` taken out of the witness set"), &assemble(&b, aux_raw.as_deref()), true); } )*
        } else { println!("note: {}: re-assembly control not accepted — witness-set mutants skipped", CASE.with(|c| c.borrow().clone())); }
        if run("control", &assemble(&wits_raw, aux_raw.as_deref()), false) {
            match &aux_raw {
                Some(_) => { run("auxiliary data replaced by {0: 1}", &assemble(&wits_raw, Some(&[0xa1, 0x00, 0x01])), true); run("auxiliary data dropped", &assemble(&wits_raw, None), true); }
                None => { run("auxiliary data {0: 1} added", &assemble(&wits_raw, Some(&[0xa1, 0x00, 0x01])), true); }
            }
        }
    }};
}
fn tx_side(txs: &[MultiEraTx], env: &Environment, utxos: &UTxOs, cs: &CertState) {
    use pallas_traverse::Era;
    match &txs[0] {
        MultiEraTx::AlonzoCompatible(mtx, era) => witness_mutants!(*era, mtx.as_ref().as_ref(), pallas_primitives::alonzo::WitnessSet, [vkeywitness, native_script, plutus_script, plutus_data, redeemer], txs, env, utxos, cs),
        MultiEraTx::Babbage(mtx) => witness_mutants!(Era::Babbage, mtx.as_ref().as_ref(), pallas_primitives::babbage::WitnessSet, [vkeywitness, native_script, plutus_v1_script, plutus_v2_script, plutus_data, redeemer], txs, env, utxos, cs),
        MultiEraTx::Conway(mtx) => witness_mutants!(Era::Conway, mtx.as_ref().as_ref(), pallas_primitives::conway::WitnessSet, [vkeywitness, native_script, plutus_v1_script, plutus_v2_script, plutus_v3_script, plutus_data, redeemer], txs, env, utxos, cs),
        _ => (),
    }
}

/// one UTxO entry with its address and / or ada amount replaced, everything else kept
fn edit_entry<'b>(o: &MultiEraOutput<'b>, addr: Option<&[u8]>, ada: Option<u64>) -> Option<MultiEraOutput<'b>> {
    use pallas_primitives::{alonzo, babbage, conway};
    use std::borrow::Cow;
    let aval = |v: alonzo::Value, a: Option<u64>| match (v, a) { (alonzo::Value::Coin(_), Some(x)) => alonzo::Value::Coin(x), (alonzo::Value::Multiasset(_, m), Some(x)) => alonzo::Value::Multiasset(x, m), (v, None) => v };
    let cval = |v: conway::Value, a: Option<u64>| match (v, a) { (conway::Value::Coin(_), Some(x)) => conway::Value::Coin(x), (conway::Value::Multiasset(_, m), Some(x)) => conway::Value::Multiasset(x, m), (v, None) => v };
    match o {
        MultiEraOutput::AlonzoCompatible(x, era) => {
            let mut t: alonzo::TransactionOutput = x.as_ref().as_ref().clone();
            if let Some(a) = addr { t.address = a.to_vec().into(); }
            t.amount = aval(t.amount, ada);
            Some(MultiEraOutput::AlonzoCompatible(Box::new(Cow::Owned(t)), *era))
        }
        MultiEraOutput::Babbage(x) => {
            let t2 = match x.as_ref().as_ref().clone() {
                babbage::TransactionOutput::Legacy(k) => { let mut l = k.unwrap(); if let Some(a) = addr { l.address = a.to_vec().into(); } l.amount = aval(l.amount, ada); babbage::TransactionOutput::Legacy(l.into()) }
                babbage::TransactionOutput::PostAlonzo(k) => { let mut q = k.unwrap(); if let Some(a) = addr { q.address = a.to_vec().into(); } q.value = aval(q.value, ada); babbage::TransactionOutput::PostAlonzo(q.into()) }
            };
            Some(MultiEraOutput::Babbage(Box::new(Cow::Owned(t2))))
        }
        MultiEraOutput::Conway(x) => {
            let t2 = match x.as_ref().as_ref().clone() {
                conway::TransactionOutput::Legacy(k) => { let mut l = k.unwrap(); if let Some(a) = addr { l.address = a.to_vec().into(); } l.amount = aval(l.amount, ada); conway::TransactionOutput::Legacy(l.into()) }
                conway::TransactionOutput::PostAlonzo(k) => { let mut q = k.unwrap(); if let Some(a) = addr { q.address = a.to_vec().into(); } q.value = cval(q.value, ada); conway::TransactionOutput::PostAlonzo(q.into()) }
            };
            Some(MultiEraOutput::Conway(Box::new(Cow::Owned(t2))))
        }
        _ => None,
    }
}
/// the same address with its payment part read as a script hash (Shelley address types 0, 2, 4, 6 -> 1, 3, 5, 7), if it is key-locked
fn script_locked_twin(o: &MultiEraOutput) -> Option<Vec<u8>> {
    let a = o.address().ok()?.to_vec();
    let t = a.first()? >> 4;
    if t <= 6 && t % 2 == 0 { let mut b = a.clone(); b[0] = ((t + 1) << 4) | (a[0] & 0x0f); Some(b) } else { None }
}
/// the same Shelley address with its payment key hash replaced by ee..ee (key-locked addresses only)
fn foreign_key_twin(o: &MultiEraOutput) -> Option<Vec<u8>> {
    let a = o.address().ok()?.to_vec();
    let t = a.first()? >> 4;
    if t <= 6 && t % 2 == 0 && a.len() >= 29 { let mut b = a.clone(); for x in &mut b[1..29] { *x = 0xee; } Some(b) } else { None }
}
fn with_entry<'b>(utxos: &UTxOs<'b>, k: &MultiEraInput<'b>, o: MultiEraOutput<'b>) -> UTxOs<'b> {
    let mut u = UTxOs::new(); for (a, b) in utxos.iter() { u.insert(a.clone(), if a == k { o.clone() } else { b.clone() }); } u
}
fn entry_side<'b>(txs: &[MultiEraTx], env: &Environment, utxos: &UTxOs<'b>, cs: &CertState, scripts: bool) {
    let tx = &txs[0];
    if matches!(tx, MultiEraTx::Byron(_)) { return; }
    // ---- a spent key-locked entry becomes script-locked: no script of that hash is witnessed
    for (i, input) in tx.inputs().iter().enumerate() {
        let Some((k, o)) = utxos.iter().find(|(a, _)| *a == input) else { continue };
        if let Some(addr) = script_locked_twin(o) { if let Some(o2) = edit_entry(o, Some(&addr), None) {
            must_reject(&format!("the output spent by input #{i} locked by a script (payment part of its address read as a script hash) with no such script witnessed"), txs, env, &with_entry(utxos, k, o2), cs); } }
    }
    // ---- a spent or collateral key-locked entry belongs to another key: nobody signed for it (whether or not the witness set carries a script)
    for (what, list) in [("input", tx.inputs()), ("collateral input", tx.collateral())] {
        for (i, input) in list.iter().enumerate() {
            let Some((k, o)) = utxos.iter().find(|(a, _)| *a == input) else { continue };
            if let Some(addr) = foreign_key_twin(o) { if let Some(o2) = edit_entry(o, Some(&addr), None) {
                must_reject(&format!("the output behind {what} #{i} locked by the payment key hash ee..ee, for which there is no witness"), txs, env, &with_entry(utxos, k, o2), cs); } }
        }
    }
    if !scripts { return; }
    let colls: Vec<_> = tx.collateral().iter().filter_map(|c| utxos.iter().find(|(a, _)| *a == c)).collect();
    for (i, (k, o)) in colls.iter().enumerate() {
        if let Some(addr) = script_locked_twin(o) { if let Some(o2) = edit_entry(o, Some(&addr), None) {
            must_reject(&format!("collateral entry #{i} locked by a script"), txs, env, &with_entry(utxos, k, o2), cs); } }
    }
    // ---- the collateral balance one lovelace below the exact minimum
    let fee = tx.fee().unwrap_or(0) as u128;
    let (pct0, alonzo) = match &env.prot_params { PP::Alonzo(x) => (x.collateral_percentage, true), PP::Babbage(x) => (x.collateral_percentage, false), PP::Conway(x) => (x.collateral_percentage, false), _ => return };
    let pct = (pct0..pct0 + 100).find(|p| (fee * *p as u128) % 100 != 0);
    if let (Some(pct), Some((k0, o0))) = (pct, colls.first()) {
        let required = (fee * pct as u128).div_ceil(100) as u64;       // the least sufficient balance
        let others: u64 = if alonzo { 0 } else { colls.iter().skip(1).map(|(_, o)| o.value().coin()).sum() };
        let ret: u64 = if alonzo { 0 } else { tx.collateral_return().map(|r| r.value().coin()).unwrap_or(0) };
        if let Some(first) = (required - 1 + ret).checked_sub(others) { if let Some(o2) = edit_entry(o0, None, Some(first)) {
            let e2 = env_with(env, |e| match &mut e.prot_params { PP::Alonzo(x) => x.collateral_percentage = pct, PP::Babbage(x) => x.collateral_percentage = pct, PP::Conway(x) => x.collateral_percentage = pct, _ => () });
            must_reject(&format!("collateral balance {} with fee {fee} and percentage {pct}: one lovelace below the minimum {required}", required - 1), txs, &e2, &with_entry(utxos, k0, o2), cs);
            // control of the oracle: exactly the minimum is not rejected for its amount (only run when nothing is annotated)
        } }
    }
}

/// stands where the test called `validate_txs`: same arguments, same result for the test body; in between, the mutators
pub fn probe(txs: &[MultiEraTx], env: &Environment, utxos: &UTxOs, cert_state: &mut CertState) -> ValidationResult {
    let case = CASE.with(|c| c.borrow().clone());
    let cs0 = cert_state.clone();
    let base = validate_txs(txs, env, utxos, &mut cs0.clone());
    if let Err(e) = &base { println!("note: {case}: not accepted as it stands ({e:?}) — skipped"); return Ok(()); }
    CASES.with(|c| c.set(c.get() + 1));
    let tx = &txs[0];
    let byron = matches!(tx, MultiEraTx::Byron(_));
    // ---- inputs, collateral inputs, reference inputs present in the UTxO set
    let without = |k: &MultiEraInput| -> UTxOs { let mut u = UTxOs::new(); for (a, b) in utxos.iter() { if a != k { u.insert(a.clone(), b.clone()); } } u };
    for (i, input) in tx.inputs().iter().enumerate() {
        if utxos.contains_key(input) { must_reject(&format!("input #{i} taken out of the UTxO set"), txs, env, &without(input), &cs0); }
    }
    if !byron {
        for (i, input) in tx.collateral().iter().enumerate() {
            if utxos.contains_key(input) { must_reject(&format!("collateral input #{i} taken out of the UTxO set"), txs, env, &without(input), &cs0); }
        }
        for (i, input) in tx.reference_inputs().iter().enumerate() {
            if utxos.contains_key(input) { must_reject(&format!("reference input #{i} taken out of the UTxO set"), txs, env, &without(input), &cs0); }
        }
        // ---- validity interval
        if let Some(ttl) = tx.ttl() { if ttl < u64::MAX { must_reject(&format!("block slot {} one past the upper bound {ttl}", ttl + 1), txs, &env_with(env, |e| e.block_slot = ttl + 1), utxos, &cs0); } }
        if let Some(start) = tx.validity_start() { if start > 0 { must_reject(&format!("block slot {} one before the lower bound {start}", start - 1), txs, &env_with(env, |e| e.block_slot = start - 1), utxos, &cs0); } }
        // ---- network id
        must_reject("the other network id", txs, &env_with(env, |e| e.network_id ^= 1), utxos, &cs0);
    }
    // ---- parameters: minimum ada, value size, transaction size, minimum fee, collateral, cost models
    let scripts = !tx.plutus_v1_scripts().is_empty() || !tx.plutus_v2_scripts().is_empty() || !tx.plutus_v3_scripts().is_empty();
    let pp = |f: &dyn Fn(&mut PP)| env_with(env, |e| f(&mut e.prot_params));
    must_reject("a maximum transaction size of 0", txs, &pp(&|p| match p { PP::Byron(x) => x.max_tx_size = 0, PP::Shelley(x) => x.max_transaction_size = 0, PP::Alonzo(x) => x.max_transaction_size = 0, PP::Babbage(x) => x.max_transaction_size = 0, PP::Conway(x) => x.max_transaction_size = 0, _ => () }), utxos, &cs0);
    if !byron {
        must_reject("a minimum fee constant of 2^32 - 1", txs, &pp(&|p| match p { PP::Shelley(x) => x.minfee_b = u32::MAX, PP::Alonzo(x) => x.minfee_b = u32::MAX, PP::Babbage(x) => x.minfee_b = u32::MAX, PP::Conway(x) => x.minfee_b = u32::MAX, _ => () }), utxos, &cs0);
        must_reject("a minimum-ada parameter of 10^12 per unit", txs, &pp(&|p| match p { PP::Shelley(x) => x.min_utxo_value = 27_000_000_000_000_000, PP::Alonzo(x) => x.ada_per_utxo_byte = 1_000_000_000_000, PP::Babbage(x) => x.ada_per_utxo_byte = 1_000_000_000_000, PP::Conway(x) => x.ada_per_utxo_byte = 1_000_000_000_000, _ => () }), utxos, &cs0);
        if !matches!(env.prot_params, PP::Shelley(_)) {
            must_reject("a maximum value size of 0", txs, &pp(&|p| match p { PP::Alonzo(x) => x.max_value_size = 0, PP::Babbage(x) => x.max_value_size = 0, PP::Conway(x) => x.max_value_size = 0, _ => () }), utxos, &cs0);
        }
        if scripts {
            must_reject("a maximum of 0 collateral inputs", txs, &pp(&|p| match p { PP::Alonzo(x) => x.max_collateral_inputs = 0, PP::Babbage(x) => x.max_collateral_inputs = 0, PP::Conway(x) => x.max_collateral_inputs = 0, _ => () }), utxos, &cs0);
            must_reject("a collateral percentage of 10^9", txs, &pp(&|p| match p { PP::Alonzo(x) => x.collateral_percentage = 1_000_000_000, PP::Babbage(x) => x.collateral_percentage = 1_000_000_000, PP::Conway(x) => x.collateral_percentage = 1_000_000_000, _ => () }), utxos, &cs0);
        }
        // Conway computes the script-integrity hash from the cost models in the protocol parameters (cost_model_for_tx):
        // one changed entry in every model on record must break it. Alonzo and Babbage hash a table compiled into the
        // validator (cost_model_cbor), chosen by network and slot, so the parameters do not reach their rule and are left alone.
        if matches!(env.prot_params(), PP::Conway(_)) && tx.as_conway().map_or(false, |t| t.transaction_body.script_data_hash.is_some()) {
            let bump = |m: &mut Vec<i64>| { if let Some(x) = m.first_mut() { *x = x.wrapping_add(1); } };
            must_reject("the first entry of every cost model on record changed by one", txs, &pp(&|p| match p {
                PP::Conway(x) => { if let Some(m) = x.cost_models_for_script_languages.plutus_v1.as_mut() { bump(m); } if let Some(m) = x.cost_models_for_script_languages.plutus_v2.as_mut() { bump(m); } if let Some(m) = x.cost_models_for_script_languages.plutus_v3.as_mut() { bump(m); } }
                _ => () }), utxos, &cs0);
        }
    }
    tx_side(txs, env, utxos, &cs0);
    entry_side(txs, env, utxos, &cs0, scripts);
    validate_txs(txs, env, utxos, cert_state)
}

/// redeemer coverage, function level: the current text of the three coverage functions on every pair of lists of up to four keys out of
/// {Spend 0, Spend 1, Mint 0} (121 x 121 pairs each, duplicates and any order included). Ok is only allowed when every redeemer points at a
/// script purpose and every purpose has a redeemer.
thread_local! { static COV: std::cell::Cell<u64> = std::cell::Cell::new(0); }
macro_rules! coverage { ($m:ident, $mk:expr) => {{
    if !$m::FOUND { println!("note: {} is no longer found as a function of that name and shape; its coverage check is skipped", $m::NAME); }
    else {
        let universe: Vec<$m::Key> = $mk;
        let mut lists: Vec<Vec<$m::Key>> = vec![vec![]];
        let mut last: Vec<Vec<$m::Key>> = vec![vec![]];
        for _ in 0..4 { let mut next = Vec::new(); for l in &last { for u in &universe { let mut x = l.clone(); x.push(u.clone()); next.push(x); } } lists.extend(next.iter().cloned()); last = next; }
        let mut oks = 0u64;
        for r in &lists { for s in &lists {
            COV.with(|n| n.set(n.get() + 1));
            if $m::call(r, s).is_ok() {
                oks += 1;
                if let Some(p) = s.iter().find(|p| !r.contains(p)) { fail(format!("{}: ACCEPTS redeemers {r:?} for script purposes {s:?} although purpose {p:?} has no redeemer", $m::NAME)); }
                if let Some(p) = r.iter().find(|p| !s.contains(p)) { fail(format!("{}: ACCEPTS redeemers {r:?} for script purposes {s:?} although redeemer {p:?} points at no purpose", $m::NAME)); }
            }
        } }
        if oks == 0 { fail(format!("{}: no pair of lists accepted at all — the check is vacuous", $m::NAME)); }
    }
}}; }

fn main() {
    {
        use pallas_primitives::alonzo::{RedeemerPointer as P, RedeemerTag as T};
        use pallas_primitives::conway::{RedeemersKey as K, RedeemerTag as CT};
        coverage!(cov_alonzo, vec![P { tag: T::Spend, index: 0 }, P { tag: T::Spend, index: 1 }, P { tag: T::Mint, index: 0 }]);
        coverage!(cov_babbage, vec![P { tag: T::Spend, index: 0 }, P { tag: T::Spend, index: 1 }, P { tag: T::Mint, index: 0 }]);
        coverage!(cov_conway, vec![K { tag: CT::Spend, index: 0 }, K { tag: CT::Spend, index: 1 }, K { tag: CT::Mint, index: 0 }]);
    }
    run_all();
    let (n, c) = (N.with(|n| n.get()), CASES.with(|c| c.get()));
    if c < 10 { fail(format!("only {c} accepted cases found in the test suites — the extraction lost its anchors")); }
    let cov = COV.with(|n| n.get());
    println!("checked {} cases: {n} single-rule mutations of {c} accepted transactions, and {cov} pairs of redeemer / script-purpose lists through the coverage functions of the three script eras", n + cov);
}
