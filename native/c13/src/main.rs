//! bounded(sum and compact-sum KES keys of depth 1..5 from 3 master seeds, evolved through every period): at every period t
//!  (C12) the key reports period t, keeps its public key, and its signature verifies at t under that key and at no other period;
//!        after the last period update fails;
//!  (C13) no 32-byte window of the key buffer equals a seed of the derivation tree whose subtree starts at a period < t — neither a
//!        past signing key (a leaf seed) nor a seed from which one can be derived.
//! The seed tree is recomputed here with Blake2b-256 and the 1 / 2 prefixes. Exit 1 with the first failing (construction, seed, period).
use pallas_crypto::hash::Hasher;
use pallas_crypto::kes::summed_kes::*;
use pallas_crypto::kes::traits::{KesSig, KesCompactSig, KesSk};

fn split(seed: &[u8; 32]) -> ([u8; 32], [u8; 32]) {
    let mut h = Hasher::<256>::new(); h.input(&[1]); h.input(seed); let l = *h.finalize();
    let mut h = Hasher::<256>::new(); h.input(&[2]); h.input(seed); let r = *h.finalize();
    (l, r)
}
fn tree(seed: [u8; 32], depth: u32, first: u32, path: String, out: &mut Vec<(u32, [u8; 32], String)>) {
    out.push((first, seed, path.clone()));
    if depth > 0 {
        let (l, r) = split(&seed);
        tree(l, depth - 1, first, format!("{path}L"), out);
        tree(r, depth - 1, first + (1 << (depth - 1)), format!("{path}R"), out);
    }
}
fn fail(msg: String) -> ! { println!("VIOLATED: {msg}"); std::process::exit(1) }

macro_rules! run {
    ($kes:ident, $depth:expr, $verify:ident, $n:ident) => {{
        for s in 0u8..3 {
            let mut master = [0u8; 32];
            for (i, b) in master.iter_mut().enumerate() { *b = (i as u8).wrapping_mul(37).wrapping_add(1 + 11 * s); }
            let mut nodes = Vec::new();
            tree(master, $depth, 0, String::new(), &mut nodes);
            let mut buf = [0u8; $kes::SIZE + 4];
            let mut seed = master;
            let (mut sk, pk) = $kes::keygen(&mut buf, &mut seed);
            let periods = 1u32 << $depth;
            for t in 0..periods {
                if t > 0 { if let Err(e) = sk.update() { fail(format!("{} seed #{s}: update to period {t} failed: {e:?}", stringify!($kes))); } }
                if sk.get_period() != t { fail(format!("{} seed #{s}: after {t} updates the key reports period {}", stringify!($kes), sk.get_period())); }
                if sk.to_pk() != pk { fail(format!("{} seed #{s}: the public key changed at period {t}", stringify!($kes))); }
                let msg = [b'm', t as u8, s];
                let sig = sk.sign(&msg);
                for u in 0..periods {
                    let ok = sig.$verify(u, &pk, &msg).is_ok();
                    if ok != (u == t) { fail(format!("{} seed #{s}: a signature made at period {t} {} at period {u}", stringify!($kes), if ok { "verifies" } else { "does not verify" })); }
                }
                let bytes = sk.as_bytes();
                for (first, secret, path) in &nodes {
                    if *first < t && bytes.windows(32).any(|w| w == secret) {
                        fail(format!("{} seed #{s}: at period {t} the key buffer still holds the seed of subtree `root{path}` (periods from {first}): material of a past period was not erased", stringify!($kes)));
                    }
                }
                $n += 1;
            }
            if sk.update().is_ok() { fail(format!("{} seed #{s}: update succeeded past the last period", stringify!($kes))); }
        }
    }};
}

fn main() {
    let mut n = 0u64;
    run!(Sum1Kes, 1, verify, n); run!(Sum2Kes, 2, verify, n); run!(Sum3Kes, 3, verify, n); run!(Sum4Kes, 4, verify, n); run!(Sum5Kes, 5, verify, n);
    run!(Sum1CompactKes, 1, verify, n); run!(Sum2CompactKes, 2, verify, n); run!(Sum3CompactKes, 3, verify, n); run!(Sum4CompactKes, 4, verify, n); run!(Sum5CompactKes, 5, verify, n);
    println!("checked {n} (key, period) states: signatures verify exactly at their period, past material is erased");
}
