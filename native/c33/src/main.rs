//! bounded(every accepted case of pallas-validate's own test suites — set-ups taken mechanically by build.rs — re-validated under structural mutations, one at a
//! time: the fee, the validity bounds, the annotated collateral set to 0 / 2^63 / 2^64-1 / just past 2^64 / 150; the input, output, collateral, certificate lists
//! emptied or removed; every output's and the collateral return's ada set to 0 and 2^64-1; every asset quantity of outputs set to 0 and 2^64-1, also with the output rewritten in the legacy array form; the mint's
//! quantities set to 0, i64::MAX and i64::MIN, the mint emptied; the witness set emptied, its fields emptied or removed, vkey witnesses with a key or signature one byte short / long / empty, degenerate native scripts (0-of-k, (2^32-1)-of-k, empty all / any / n-of, nested) added to it; every spent and collateral UTxO entry's ada set to
//! 0 and 2^64-1, and typed as an output of another era; the UTxO set emptied; the block slot 0 and 2^64-1; and, for the cases whose witness set holds only vkey witnesses, the same body edits plus hash fields of the
//! wrong length and other network ids on a version of the case moved to ONE fresh key and SIGNED AGAIN after the edit, so that the checks behind the signature check are reached): whenever the mutated transaction still DECODES, phase-1 validation must RETURN (Ok or Err) —
//! a panic is a violation. Built with overflow checks on (dev profile): an arithmetic overflow is a panic. Exit 1 with the first panic if not.
#[path = "/repo/pallas-validate/tests/common.rs"]
#[allow(dead_code, unused_imports)]
pub mod common;
pub mod byron { include!(concat!(env!("OUT_DIR"), "/byron.rs")); }
pub mod shelley_ma { include!(concat!(env!("OUT_DIR"), "/shelley_ma.rs")); }
pub mod alonzo { include!(concat!(env!("OUT_DIR"), "/alonzo.rs")); }
pub mod babbage { include!(concat!(env!("OUT_DIR"), "/babbage.rs")); }
pub mod conway { include!(concat!(env!("OUT_DIR"), "/conway.rs")); }
include!(concat!(env!("OUT_DIR"), "/run_all.rs"));

use pallas_traverse::{Era, MultiEraInput, MultiEraOutput, MultiEraTx};
use pallas_validate::phase1::validate_txs;
use pallas_validate::utils::{CertState, Environment, UTxOs, ValidationResult};
use std::cell::{Cell, RefCell};

thread_local! { static CASE: RefCell<String> = RefCell::new(String::new()); static N: Cell<u64> = Cell::new(0); static UNDEC: Cell<u64> = Cell::new(0); static CASES: Cell<u64> = Cell::new(0); static REKEYED: Cell<u64> = Cell::new(0);
    static PANICS: RefCell<Vec<String>> = RefCell::new(Vec::new()); static LAST: RefCell<String> = RefCell::new(String::new()); }
pub fn set_case(name: &str) { CASE.with(|c| *c.borrow_mut() = name.to_string()); }

// ---- a small CBOR document model: enough to edit a transaction body and re-encode it (definite lengths) -------------------------------------------------------
#[derive(Clone, Debug, PartialEq)]
enum C { U(u64), N(u64), B(Vec<u8>), T(Vec<u8>), A(Vec<C>), M(Vec<(C, C)>), Tag(u64, Box<C>), S(u8), F(Vec<u8>) }
fn head(b: &[u8], i: &mut usize) -> Option<(u8, Option<u64>)> {
    let ib = *b.get(*i)?; *i += 1; let (mt, ai) = (ib >> 5, ib & 31);
    let v = match ai { 0..=23 => Some(ai as u64), 24 => { let v = *b.get(*i)? as u64; *i += 1; Some(v) }
        25 => { let v = u16::from_be_bytes(b.get(*i..*i + 2)?.try_into().ok()?) as u64; *i += 2; Some(v) }
        26 => { let v = u32::from_be_bytes(b.get(*i..*i + 4)?.try_into().ok()?) as u64; *i += 4; Some(v) }
        27 => { let v = u64::from_be_bytes(b.get(*i..*i + 8)?.try_into().ok()?); *i += 8; Some(v) }
        31 => None, _ => return None };
    Some((mt, v))
}
fn parse(b: &[u8], i: &mut usize) -> Option<C> {
    let start = *i; let (mt, v) = head(b, i)?;
    Some(match mt {
        0 => C::U(v?), 1 => C::N(v?),
        2 | 3 => { let bytes = match v { Some(n) => { let s = b.get(*i..*i + n as usize)?.to_vec(); *i += n as usize; s }
                None => { let mut s = Vec::new(); while *b.get(*i)? != 0xff { let (_, n) = head(b, i)?; let n = n? as usize; s.extend_from_slice(b.get(*i..*i + n)?); *i += n; } *i += 1; s } };
            if mt == 2 { C::B(bytes) } else { C::T(bytes) } }
        4 => { let mut v2 = Vec::new(); match v { Some(n) => for _ in 0..n { v2.push(parse(b, i)?) }, None => { while *b.get(*i)? != 0xff { v2.push(parse(b, i)?) } *i += 1; } } C::A(v2) }
        5 => { let mut v2 = Vec::new(); match v { Some(n) => for _ in 0..n { let k = parse(b, i)?; v2.push((k, parse(b, i)?)) }, None => { while *b.get(*i)? != 0xff { let k = parse(b, i)?; v2.push((k, parse(b, i)?)) } *i += 1; } } C::M(v2) }
        6 => C::Tag(v?, Box::new(parse(b, i)?)),
        _ => { if b[start] & 31 < 24 { C::S(b[start]) } else { C::F(b[start..*i].to_vec()) } }
    })
}
fn hd(mt: u8, v: u64, o: &mut Vec<u8>) {
    let m = mt << 5;
    if v < 24 { o.push(m | v as u8) } else if v < 256 { o.push(m | 24); o.push(v as u8) } else if v < 65536 { o.push(m | 25); o.extend_from_slice(&(v as u16).to_be_bytes()) }
    else if v < (1 << 32) { o.push(m | 26); o.extend_from_slice(&(v as u32).to_be_bytes()) } else { o.push(m | 27); o.extend_from_slice(&v.to_be_bytes()) }
}
fn enc(c: &C, o: &mut Vec<u8>) {
    match c { C::U(v) => hd(0, *v, o), C::N(v) => hd(1, *v, o), C::B(b) => { hd(2, b.len() as u64, o); o.extend_from_slice(b) } C::T(b) => { hd(3, b.len() as u64, o); o.extend_from_slice(b) }
        C::A(v) => { hd(4, v.len() as u64, o); for x in v { enc(x, o) } } C::M(v) => { hd(5, v.len() as u64, o); for (k, x) in v { enc(k, o); enc(x, o) } }
        C::Tag(t, x) => { hd(6, *t, o); enc(x, o) } C::S(b) => o.push(*b), C::F(b) => o.extend_from_slice(b) }
}
fn to_bytes(c: &C) -> Vec<u8> { let mut o = Vec::new(); enc(c, &mut o); o }
fn mget<'a>(m: &'a mut C, key: u64) -> Option<&'a mut C> { if let C::M(v) = m { v.iter_mut().find(|(k, _)| *k == C::U(key)).map(|(_, x)| x) } else { None } }
fn mdel(m: &mut C, key: u64) { if let C::M(v) = m { v.retain(|(k, _)| *k != C::U(key)) } }
/// the elements of a list that may be written as an array or as a tagged set (tag 258)
fn list_mut(c: &mut C) -> Option<&mut Vec<C>> { match c { C::A(v) => Some(v), C::Tag(258, x) => if let C::A(v) = x.as_mut() { Some(v) } else { None }, _ => None } }
/// the value of an output (legacy array [addr, value, ..] or map {0: addr, 1: value, ..})
fn out_value(o: &mut C) -> Option<&mut C> { match o { C::A(v) => v.get_mut(1), C::M(_) => mget(o, 1), _ => None } }
fn set_coin(v: &mut C, x: u64) { match v { C::U(c) => *c = x, C::A(p) => if let Some(C::U(c)) = p.get_mut(0) { *c = x }, _ => () } }
fn set_quantities(v: &mut C, q: &C) { if let C::A(p) = v { if let Some(C::M(pols)) = p.get_mut(1) { for (_, assets) in pols.iter_mut() { if let C::M(a) = assets { for (_, x) in a.iter_mut() { *x = q.clone(); } } } } } }

/// every mutated version of a body, with what was done
fn body_mutants(body: &C) -> Vec<(String, C)> {
    let mut out: Vec<(String, C)> = Vec::new();
    let mut add = |what: String, f: &dyn Fn(&mut C) -> bool| { let mut b = body.clone(); if f(&mut b) && b != *body { out.push((what, b)); } };
    let big = [0u64, 1 << 63, u64::MAX, u64::MAX / 150 + 1];
    for (key, name) in [(2u64, "fee"), (3, "upper validity bound"), (8, "lower validity bound"), (17, "annotated total collateral")] {
        for x in big { add(format!("{name} set to {x}"), &|b| match mget(b, key) { Some(c) => { *c = C::U(x); true } None => false }); }
    }
    for (key, name) in [(0u64, "inputs"), (1, "outputs"), (13, "collateral inputs"), (4, "certificates"), (18, "reference inputs"), (14, "required signers")] {
        add(format!("{name} emptied"), &|b| match mget(b, key).and_then(list_mut) { Some(v) => { v.clear(); true } None => false });
        add(format!("{name} removed"), &|b| { let had = mget(b, key).is_some(); mdel(b, key); had });
        add(format!("{name} reduced to the first element twice"), &|b| match mget(b, key).and_then(list_mut) { Some(v) if !v.is_empty() => { let f = v[0].clone(); *v = vec![f.clone(), f]; true } _ => false });
    }
    let n_out = match body { C::M(v) => v.iter().find(|(k, _)| *k == C::U(1)).and_then(|(_, o)| if let C::A(x) = o { Some(x.len()) } else { None }).unwrap_or(0), _ => 0 };
    for i in 0..n_out {
        for x in [0u64, u64::MAX] {
            add(format!("output #{i}: ada set to {x}"), &|b| match mget(b, 1).and_then(list_mut).and_then(|v| v.get_mut(i)).and_then(out_value) { Some(v) => { set_coin(v, x); true } None => false });
            add(format!("output #{i}: every asset quantity set to {x}"), &|b| match mget(b, 1).and_then(list_mut).and_then(|v| v.get_mut(i)).and_then(out_value) { Some(v) => { set_quantities(v, &C::U(x)); true } None => false });
        }
    }
    for i in 0..n_out {
        // the legacy (array) form of an output holds plain integers as quantities: a zero decodes there
        add(format!("output #{i} rewritten in the legacy array form [address, value] with every asset quantity 0"), &|b| match mget(b, 1).and_then(list_mut).and_then(|v| v.get_mut(i)) {
            Some(o) => { let (a, v) = match o { C::M(_) => (mget(o, 0).cloned(), mget(o, 1).cloned()), C::A(x) => (x.first().cloned(), x.get(1).cloned()), _ => (None, None) };
                match (a, v) { (Some(a), Some(mut v)) if matches!(v, C::A(_)) => { set_quantities(&mut v, &C::U(0)); *o = C::A(vec![a, v]); true } _ => false } }
            None => false });
    }
    for q in [0u64, 1, u64::MAX] {
        // an output in the legacy array form carrying one asset of quantity q (a zero quantity decodes in this form)
        add(format!("output #0 rewritten as the legacy array [address, [ada, {{policy: {{name: {q}}}}}]]"), &|b| match mget(b, 1).and_then(list_mut).and_then(|v| v.get_mut(0)) {
            Some(o) => { let (a, v) = match o { C::M(_) => (mget(o, 0).cloned(), mget(o, 1).cloned()), C::A(x) => (x.first().cloned(), x.get(1).cloned()), _ => (None, None) };
                let coin = match v { Some(C::U(c)) => Some(c), Some(C::A(p)) => match p.first() { Some(C::U(c)) => Some(*c), _ => None }, _ => None };
                match (a, coin) { (Some(a), Some(c)) => { *o = C::A(vec![a, C::A(vec![C::U(c), C::M(vec![(C::B(vec![0x5a; 28]), C::M(vec![(C::B(b"x".to_vec()), C::U(q))]))])])]); true } _ => false } }
            None => false });
    }
    for x in [0u64, u64::MAX] {
        add(format!("collateral return: ada set to {x}"), &|b| match mget(b, 16).and_then(out_value) { Some(v) => { set_coin(v, x); true } None => false });
    }
    for (q, name) in [(C::U(0), "0"), (C::U(i64::MAX as u64), "i64::MAX"), (C::N(i64::MAX as u64), "i64::MIN"), (C::U(u64::MAX), "2^64-1")] {
        add(format!("mint: every quantity set to {name}"), &|b| match mget(b, 9) { Some(C::M(pols)) => { for (_, a) in pols.iter_mut() { if let C::M(a) = a { for (_, x) in a.iter_mut() { *x = q.clone(); } } } true } _ => false });
    }
    add("mint emptied".into(), &|b| match mget(b, 9) { Some(m) => { *m = C::M(vec![]); true } None => false });
    add("withdrawals: every amount set to 2^64-1".into(), &|b| match mget(b, 5) { Some(C::M(w)) => { for (_, x) in w.iter_mut() { *x = C::U(u64::MAX); } true } _ => false });
    out
}
fn wits_mutants(w: &C) -> Vec<(String, C)> {
    let mut out = vec![("witness set emptied".to_string(), C::M(vec![]))];
    for (key, name) in [(0u64, "vkey witnesses"), (1, "native scripts"), (3, "Plutus V1 scripts"), (4, "datums"), (5, "redeemers"), (6, "Plutus V2 scripts"), (7, "Plutus V3 scripts")] {
        let mut b = w.clone(); if let Some(l) = mget(&mut b, key) { if let Some(v) = list_mut(l) { v.clear(); out.push((format!("{name} emptied"), b.clone())); } else if let C::M(m) = l { m.clear(); out.push((format!("{name} emptied"), b.clone())); } }
        let mut b = w.clone(); if mget(&mut b, key).is_some() { mdel(&mut b, key); out.push((format!("{name} removed"), b)); }
    }
    // a vkey witness whose key or signature has the wrong length (both are plain byte strings: any length decodes)
    let n_vk = match w { C::M(m) => m.iter().find(|(k, _)| *k == C::U(0)).map(|(_, l)| match l { C::A(v) => v.len(), C::Tag(258, x) => if let C::A(v) = x.as_ref() { v.len() } else { 0 }, _ => 0 }).unwrap_or(0), _ => 0 };
    for i in 0..n_vk { for (field, name) in [(0usize, "key"), (1, "signature")] { for how in ["one byte short", "one byte long", "empty"] {
        let mut b = w.clone();
        if let Some(C::A(pair)) = mget(&mut b, 0).and_then(list_mut).and_then(|v| v.get_mut(i)) { if let Some(C::B(bytes)) = pair.get_mut(field) {
            match how { "one byte short" => { bytes.pop(); } "one byte long" => bytes.push(0), _ => bytes.clear() } } }
        out.push((format!("vkey witness #{i}: {name} {how}"), b));
    } } }
    // crafted native scripts appended to the witness set (evaluated by the eras that evaluate every witnessed script): degenerate thresholds and empty lists
    let u = |x: u64| C::U(x);
    let leaf = |tag: u64, x: u64| C::A(vec![u(tag), u(x)]);
    let scripts: Vec<(&str, C)> = vec![
        ("0-of-[valid-before 2^64-1]", C::A(vec![u(3), u(0), C::A(vec![leaf(5, u64::MAX)])])),
        ("0-of-[valid-from 0]", C::A(vec![u(3), u(0), C::A(vec![leaf(4, 0)])])),
        ("0-of-[valid-from 0, valid-from 0]", C::A(vec![u(3), u(0), C::A(vec![leaf(4, 0), leaf(4, 0)])])),
        ("(2^32-1)-of-[valid-from 0]", C::A(vec![u(3), u(u32::MAX as u64), C::A(vec![leaf(4, 0)])])),
        ("0-of-[]", C::A(vec![u(3), u(0), C::A(vec![])])), ("1-of-[]", C::A(vec![u(3), u(1), C::A(vec![])])),
        ("all-of-[]", C::A(vec![u(1), C::A(vec![])])), ("any-of-[]", C::A(vec![u(2), C::A(vec![])])),
        ("all-of-[any-of-[0-of-[valid-from 0]]]", C::A(vec![u(1), C::A(vec![C::A(vec![u(2), C::A(vec![C::A(vec![u(3), u(0), C::A(vec![leaf(4, 0)])])])])])])),
        ("valid-before 0", leaf(5, 0)), ("valid-from 2^64-1", leaf(4, u64::MAX)),
    ];
    for (name, sc) in scripts {
        let mut b = w.clone();
        if let C::M(m) = &mut b {
            match m.iter_mut().find(|(k, _)| *k == C::U(1)) {
                Some((_, l)) => { if let Some(v) = list_mut(l) { v.push(sc.clone()); } }
                None => m.push((C::U(1), C::A(vec![sc.clone()]))),
            }
            out.push((format!("native script {name} added to the witness set"), b));
        }
    }
    out.retain(|(_, b)| b != w);
    out
}

fn run(what: &str, txs: &[MultiEraTx], env: &Environment, utxos: &UTxOs, cs: &CertState) {
    let case = CASE.with(|c| c.borrow().clone());
    LAST.with(|l| l.borrow_mut().clear());
    let r = std::panic::catch_unwind(std::panic::AssertUnwindSafe(|| validate_txs(txs, env, utxos, &mut cs.clone())));
    N.with(|n| n.set(n.get() + 1));
    if r.is_err() {
        let msg = LAST.with(|l| l.borrow().clone());
        PANICS.with(|p| p.borrow_mut().push(format!("{case}: validation PANICKED ({msg}) after: {what}")));
    }
}
fn env_with(env: &Environment, f: impl FnOnce(&mut Environment)) -> Environment {
    let mut e = Environment { prot_params: env.prot_params.clone(), prot_magic: env.prot_magic, block_slot: env.block_slot, network_id: env.network_id,
        acnt: env.acnt.as_ref().map(|a| pallas_validate::utils::AccountState { treasury: a.treasury, reserves: a.reserves }) };
    f(&mut e); e
}
fn edit_ada<'b>(o: &MultiEraOutput<'b>, ada: u64) -> Option<MultiEraOutput<'b>> { edit_entry(o, None, Some(ada)) }
fn edit_entry<'b>(o: &MultiEraOutput<'b>, addr: Option<&[u8]>, ada: Option<u64>) -> Option<MultiEraOutput<'b>> {
    use pallas_primitives::{alonzo, babbage, conway};
    use std::borrow::Cow;
    let aval = |v: alonzo::Value| match (v, ada) { (alonzo::Value::Coin(_), Some(x)) => alonzo::Value::Coin(x), (alonzo::Value::Multiasset(_, m), Some(x)) => alonzo::Value::Multiasset(x, m), (v, None) => v };
    let cval = |v: conway::Value| match (v, ada) { (conway::Value::Coin(_), Some(x)) => conway::Value::Coin(x), (conway::Value::Multiasset(_, m), Some(x)) => conway::Value::Multiasset(x, m), (v, None) => v };
    match o {
        MultiEraOutput::AlonzoCompatible(x, era) => { let mut t: alonzo::TransactionOutput = x.as_ref().as_ref().clone(); if let Some(a) = addr { t.address = a.to_vec().into(); } t.amount = aval(t.amount); Some(MultiEraOutput::AlonzoCompatible(Box::new(Cow::Owned(t)), *era)) }
        MultiEraOutput::Babbage(x) => { let t2 = match x.as_ref().as_ref().clone() {
                babbage::TransactionOutput::Legacy(k) => { let mut l = k.unwrap(); if let Some(a) = addr { l.address = a.to_vec().into(); } l.amount = aval(l.amount); babbage::TransactionOutput::Legacy(l.into()) }
                babbage::TransactionOutput::PostAlonzo(k) => { let mut q = k.unwrap(); if let Some(a) = addr { q.address = a.to_vec().into(); } q.value = aval(q.value); babbage::TransactionOutput::PostAlonzo(q.into()) } };
            Some(MultiEraOutput::Babbage(Box::new(Cow::Owned(t2)))) }
        MultiEraOutput::Conway(x) => { let t2 = match x.as_ref().as_ref().clone() {
                conway::TransactionOutput::Legacy(k) => { let mut l = k.unwrap(); if let Some(a) = addr { l.address = a.to_vec().into(); } l.amount = aval(l.amount); conway::TransactionOutput::Legacy(l.into()) }
                conway::TransactionOutput::PostAlonzo(k) => { let mut q = k.unwrap(); if let Some(a) = addr { q.address = a.to_vec().into(); } q.value = cval(q.value); conway::TransactionOutput::PostAlonzo(q.into()) } };
            Some(MultiEraOutput::Conway(Box::new(Cow::Owned(t2)))) }
        MultiEraOutput::Byron(x) => { let mut t = x.as_ref().as_ref().clone(); if let Some(v) = ada { t.amount = v; } Some(MultiEraOutput::Byron(Box::new(Cow::Owned(t)))) }
        _ => None,
    }
}

/// further body edits that only matter when the edited body is signed again (they sit behind the signature check)
fn signed_body_mutants(body: &C) -> Vec<(String, C)> {
    let mut out = body_mutants(body);
    let mut add = |what: String, f: &dyn Fn(&mut C) -> bool| { let mut b = body.clone(); if f(&mut b) && b != *body { out.push((what, b)); } };
    for (key, name) in [(7u64, "auxiliary-data hash"), (11, "script-data hash")] {
        for how in ["one byte short", "one byte long", "empty", "zeroed"] {
            add(format!("{name} {how}"), &|b| match mget(b, key) { Some(C::B(h)) => { match how { "one byte short" => { h.pop(); } "one byte long" => h.push(0), "empty" => h.clear(), _ => h.iter_mut().for_each(|x| *x = 0) } true } _ => false });
        }
    }
    add("auxiliary-data hash (31 bytes) added".into(), &|b| if mget(b, 7).is_none() { if let C::M(m) = b { m.push((C::U(7), C::B(vec![7; 31]))); } true } else { false });
    add("auxiliary-data hash (32 bytes) added".into(), &|b| if mget(b, 7).is_none() { if let C::M(m) = b { m.push((C::U(7), C::B(vec![7; 32]))); } true } else { false });
    for x in [0u64, 1, 2, 255] { add(format!("network id {x}"), &|b| { match mget(b, 15) { Some(c) => *c = C::U(x), None => if let C::M(m) = b { m.push((C::U(15), C::U(x))) } } true }); }
    out
}
/// the same transaction spent from outputs of ONE fresh key — every spent and collateral UTxO entry moved to the enterprise address of that key, the witness
/// set reduced to one vkey witness by it — so that an EDITED body can be signed again and reaches the checks behind the signature check. Only for transactions
/// whose witness set holds nothing but vkey witnesses and that name no required signers.
fn rekeyed(txs: &[MultiEraTx], env: &Environment, utxos: &UTxOs, cs: &CertState, parts: &[C]) {
    use pallas_crypto::{hash::Hasher, key::ed25519::SecretKey};
    let tx = &txs[0]; let era = tx.era();
    let plain = matches!(&parts[1], C::M(m) if m.iter().all(|(k, _)| *k == C::U(0)));
    let mut body0 = parts[0].clone();
    if !plain || mget(&mut body0, 14).is_some() { return; }
    let sk = SecretKey::from([7u8; 32]); let pk = sk.public_key();
    let mut addr = vec![0x60u8 | (env.network_id & 0x0f)]; addr.extend_from_slice(Hasher::<224>::hash(pk.as_ref()).as_ref());
    let keys: Vec<MultiEraInput> = tx.inputs().into_iter().chain(tx.collateral()).collect();
    let mut u2 = UTxOs::new();
    for (a, b) in utxos.iter() { let o = if keys.iter().any(|k| k == a) { match edit_entry(b, Some(&addr), None) { Some(o) => o, None => return } } else { b.clone() }; u2.insert(a.clone(), o); }
    let sign = |body: &C| -> Vec<u8> { let bb = to_bytes(body); let h = Hasher::<256>::hash(&bb); let sig = sk.sign(h);
        let wits = C::M(vec![(C::U(0), C::A(vec![C::A(vec![C::B(pk.as_ref().to_vec()), C::B(sig.as_ref().to_vec())])]))]);
        let mut p = parts.to_vec(); p[0] = body.clone(); p[1] = wits; to_bytes(&C::A(p)) };
    let base = sign(&parts[0]);
    let ok = match MultiEraTx::decode_for_era(era, &base) { Ok(t) => validate_txs(&[t], env, &u2, &mut cs.clone()).is_ok(), Err(_) => false };
    if !ok { return; }
    REKEYED.with(|r| r.set(r.get() + 1));
    for (what, b) in signed_body_mutants(&parts[0]) {
        let bytes = sign(&b);
        match MultiEraTx::decode_for_era(era, &bytes) { Ok(t) => run(&format!("(re-signed) {what}"), &[t], env, &u2, cs), Err(_) => UNDEC.with(|u| u.set(u.get() + 1)) }
    }
    // ---- auxiliary data attached (fee and the first spent entry raised by 10000 lovelace to pay for the extra bytes), with the hash in the body right, wrong, or of
    // the wrong length
    let aux = C::M(vec![(C::U(1), C::T(b"abc".to_vec()))]);
    let h: Vec<u8> = Hasher::<256>::hash(&to_bytes(&aux)).as_ref().to_vec();
    let mut body_a = parts[0].clone();
    if let Some(C::U(f)) = mget(&mut body_a, 2) { *f = f.saturating_add(10_000); }
    let Some(k0) = tx.inputs().into_iter().next() else { return };
    let mut u3 = UTxOs::new();
    for (a, b) in u2.iter() { let o = if *a == k0 { match edit_entry(b, None, Some(b.value().coin().saturating_add(10_000))) { Some(o) => o, None => return } } else { b.clone() }; u3.insert(a.clone(), o); }
    let mut short = h.clone(); short.pop(); let mut long = h.clone(); long.push(0);
    for (how, hv) in [("its Blake2b-256 hash", h.clone()), ("that hash one byte short", short), ("that hash one byte long", long), ("an empty hash", vec![]), ("another 32-byte hash", vec![7u8; 32])] {
        let mut b = body_a.clone();
        match mget(&mut b, 7) { Some(c) => *c = C::B(hv.clone()), None => if let C::M(m) = &mut b { m.push((C::U(7), C::B(hv.clone()))) } }
        let bb = to_bytes(&b); let sig = sk.sign(Hasher::<256>::hash(&bb));
        let wits = C::M(vec![(C::U(0), C::A(vec![C::A(vec![C::B(pk.as_ref().to_vec()), C::B(sig.as_ref().to_vec())])]))]);
        let mut p = parts.to_vec(); p[0] = b; p[1] = wits; let last = p.len() - 1; p[last] = aux.clone();
        let bytes = to_bytes(&C::A(p));
        match MultiEraTx::decode_for_era(era, &bytes) { Ok(t) => run(&format!("(re-signed) auxiliary data {{1: \"abc\"}} attached and the body naming {how}"), &[t], env, &u3, cs), Err(_) => UNDEC.with(|u| u.set(u.get() + 1)) }
    }
}

/// stands where the test called `validate_txs`
pub fn probe(txs: &[MultiEraTx], env: &Environment, utxos: &UTxOs, cert_state: &mut CertState) -> ValidationResult {
    let case = CASE.with(|c| c.borrow().clone());
    let cs0 = cert_state.clone();
    if let Err(e) = validate_txs(txs, env, utxos, &mut cs0.clone()) { println!("note: {case}: not accepted as it stands ({e:?}) — skipped"); return Ok(()); }
    CASES.with(|c| c.set(c.get() + 1));
    let tx = &txs[0];
    // ---- the UTxO set and the environment
    run("the UTxO set emptied", txs, env, &UTxOs::new(), &cs0);
    for slot in [0u64, u64::MAX] { run(&format!("block slot {slot}"), txs, &env_with(env, |e| e.block_slot = slot), utxos, &cs0); }
    let keys: Vec<MultiEraInput> = tx.inputs().into_iter().chain(tx.collateral()).chain(tx.reference_inputs()).collect();
    for (i, key) in keys.iter().enumerate() {
        let Some((k, o)) = utxos.iter().find(|(a, _)| *a == key) else { continue };
        for ada in [0u64, u64::MAX, 1 << 63] {
            if let Some(o2) = edit_ada(o, ada) { let mut u = UTxOs::new(); for (a, b) in utxos.iter() { u.insert(a.clone(), if a == k { o2.clone() } else { b.clone() }); }
                run(&format!("the UTxO entry of input / collateral / reference input #{i} given {ada} lovelace"), txs, env, &u, &cs0); }
        }
    }
    // ---- a spent / collateral entry typed in ANOTHER era (same address and ada): "any UTxO set"
    for (i, key) in keys.iter().enumerate() {
        let Some((k, o)) = utxos.iter().find(|(a, _)| *a == key) else { continue };
        let (Ok(addr), ada) = (o.address().map(|a| a.to_vec()), o.value().coin()) else { continue };
        use pallas_primitives::{alonzo, babbage, conway}; use std::borrow::Cow;
        let twins: Vec<(&str, MultiEraOutput)> = vec![
            ("an Alonzo-compatible", MultiEraOutput::AlonzoCompatible(Box::new(Cow::Owned(alonzo::TransactionOutput { address: addr.clone().into(), amount: alonzo::Value::Coin(ada), datum_hash: None })), Era::Alonzo)),
            ("a Babbage", MultiEraOutput::Babbage(Box::new(Cow::Owned(babbage::TransactionOutput::PostAlonzo(babbage::PostAlonzoTransactionOutput { address: addr.clone().into(), value: alonzo::Value::Coin(ada), datum_option: None, script_ref: None }.into()))))),
            ("a Conway", MultiEraOutput::Conway(Box::new(Cow::Owned(conway::TransactionOutput::PostAlonzo(conway::PostAlonzoTransactionOutput { address: addr.clone().into(), value: conway::Value::Coin(ada), datum_option: None, script_ref: None }.into()))))),
        ];
        for (name, o2) in twins {
            if std::mem::discriminant(&o2) == std::mem::discriminant(o) { continue; }
            let mut u = UTxOs::new(); for (a, b) in utxos.iter() { u.insert(a.clone(), if a == k { o2.clone() } else { b.clone() }); }
            run(&format!("the UTxO entry of input / collateral / reference input #{i} typed as {name} output (same address, {ada} lovelace)"), txs, env, &u, &cs0);
        }
    }
    // ---- the transaction, re-assembled from edited parts
    let era = tx.era();
    let raw = tx.encode();
    let mut i = 0usize;
    let mut j = 0usize;
    if let (Era::Byron, Some(C::A(parts))) = (era, parse(&raw, &mut j)) { if let Some(C::A(txp)) = parts.first() {
        // Byron: [[inputs, outputs, attributes], witnesses]; an output is [address, amount]
        let mut muts: Vec<(String, C)> = Vec::new();
        let n_out = match txp.get(1) { Some(C::A(o)) => o.len(), _ => 0 };
        for k in 0..n_out { for x in [0u64, u64::MAX, 1 << 63] { let mut t = txp.clone(); if let Some(C::A(o)) = t.get_mut(1) { if let Some(C::A(f)) = o.get_mut(k) { if let Some(a) = f.get_mut(1) { *a = C::U(x); } } }
            muts.push((format!("Byron output #{k}: amount set to {x}"), C::A(t))); } }
        for (idx, name) in [(0usize, "inputs"), (1, "outputs")] { let mut t = txp.clone(); if let Some(C::A(l)) = t.get_mut(idx) { l.clear(); } muts.push((format!("Byron {name} emptied"), C::A(t)));
            let mut t = txp.clone(); if let Some(C::A(l)) = t.get_mut(idx) { if let Some(f) = l.first().cloned() { l.push(f); } } muts.push((format!("Byron {name}: first element repeated"), C::A(t))); }
        for (what, t) in muts { let mut p = parts.clone(); p[0] = t; let bytes = to_bytes(&C::A(p));
            match MultiEraTx::decode_for_era(era, &bytes) { Ok(t) => run(&what, &[t], env, utxos, &cs0), Err(_) => UNDEC.with(|u| u.set(u.get() + 1)) } }
    } }
    if let Some(C::A(parts)) = parse(&raw, &mut i) { if parts.len() >= 2 && era != Era::Byron {
        let assemble = |body: &C, wits: &C| -> Vec<u8> { let mut p = parts.clone(); p[0] = body.clone(); p[1] = wits.clone(); to_bytes(&C::A(p)) };
        let mut muts: Vec<(String, Vec<u8>)> = body_mutants(&parts[0]).into_iter().map(|(w, b)| (w, assemble(&b, &parts[1]))).collect();
        muts.extend(wits_mutants(&parts[1]).into_iter().map(|(w, b)| (w, assemble(&parts[0], &b))));
        for (what, bytes) in muts {
            match MultiEraTx::decode_for_era(era, &bytes) {
                Ok(t) => run(&what, &[t], env, utxos, &cs0),
                Err(_) => UNDEC.with(|u| u.set(u.get() + 1)),      // not a decodable transaction: outside the statement
            }
        }
        rekeyed(txs, env, utxos, &cs0, &parts);
    } }
    validate_txs(txs, env, utxos, cert_state)
}

fn main() {
    std::panic::set_hook(Box::new(|info| { let s = format!("{info}").replace('\n', " "); LAST.with(|l| *l.borrow_mut() = s); }));
    run_all();
    let _ = std::panic::take_hook();
    let (n, c, u) = (N.with(|n| n.get()), CASES.with(|c| c.get()), UNDEC.with(|u| u.get()));
    let panics = PANICS.with(|p| p.borrow().clone());
    for p in &panics { println!("VIOLATED: {p}"); }
    if c < 10 { println!("VIOLATED: only {c} accepted cases found in the test suites — the extraction lost its anchors"); std::process::exit(1); }
    println!("checked {n} validations of structurally mutated transactions, UTxO sets and slots from {c} accepted cases, {} of them also re-keyed and re-signed after the edit ({u} mutants no longer decode and are outside the statement)", REKEYED.with(|r| r.get()));
    if !panics.is_empty() { std::process::exit(1); }
}
