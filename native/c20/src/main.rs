//! bounded(ROUNDS (default 12; `thorough`: 120) rounds; in each a connected pair of real Plexers over a Unix-domain socket pair on a 4-thread runtime, 3 protocols,
//! on each protocol a client agent on side A talking to a server agent on side B AND a client agent on side B talking to a server agent on side A — 12 concurrent
//! senders and 12 receivers; every sender enqueues 60 chunks of pseudo-random sizes from {0, 1, 2, 255, 4096, 65535} and other sizes up to 65535, each chunk carrying
//! (sender id, sequence number) in its first bytes where it is long enough and a size-derived fill, with pseudo-random task yields; plus 3 backlog rounds in which 150 chunks are outstanding on one protocol before its receiver takes the first): every receiver gets exactly the chunks
//! of the sender of the opposite role on its protocol from the other side, each once, in enqueue order, with the same bytes — none from another protocol, role or direction.
//! Exit 1 with the first difference if not.
use pallas_network::multiplexer::{Bearer, Plexer};
use std::time::Duration;

struct Rng(u64);
impl Rng { fn next(&mut self) -> u64 { self.0 ^= self.0 << 13; self.0 ^= self.0 >> 7; self.0 ^= self.0 << 17; self.0 } fn below(&mut self, n: u64) -> u64 { self.next() % n } }
const CHUNKS: usize = 60;
fn chunk(sender: u8, seq: u32, r: &mut Rng) -> Vec<u8> {
    let size = match r.below(8) { 0 => 0, 1 => 1, 2 => 2, 3 => 255, 4 => 4096, 5 => 65535, _ => r.below(65536) as usize };
    let mut v = vec![(size % 251) as u8 ^ sender; size];
    let tag = [sender, (seq >> 8) as u8, seq as u8];
    for (i, b) in tag.iter().enumerate() { if i < size { v[i] = *b; } }
    v
}

async fn round(seed: u64) -> Result<u64, String> {
    let dir = std::env::temp_dir().join(format!("verif-c20-{}-{seed}", std::process::id()));
    let _ = std::fs::remove_file(&dir);
    let listener = tokio::net::UnixListener::bind(&dir).map_err(|e| format!("bind: {e}"))?;
    let (a, b) = tokio::join!(Bearer::connect_unix(&dir), Bearer::accept_unix(&listener));
    let (a, (b, _)) = (a.map_err(|e| format!("connect: {e}"))?, b.map_err(|e| format!("accept: {e}"))?);
    let mut pa = Plexer::new(a); let mut pb = Plexer::new(b);
    let mut tasks = Vec::new();
    let mut id = 0u8;
    for proto in [2u16, 3, 7] {
        // client on A -> server on B, and client on B -> server on A; each pair exchanges in both directions
        for dir_ab in [true, false] {
            let (mut client, mut server) = if dir_ab { (pa.subscribe_client(proto), pb.subscribe_server(proto)) } else { (pb.subscribe_client(proto), pa.subscribe_server(proto)) };
            let (cid, sid) = (id, id + 1); id += 2;
            // each agent both sends its own stream and receives the stream of its counterpart
            tasks.push(tokio::spawn(async move {
                let mut r = Rng(seed.wrapping_mul(0x9e3779b97f4a7c15) ^ (cid as u64 + 101)); let mut content = Rng(seed.wrapping_mul(0x9e3779b97f4a7c15) ^ (cid as u64 + 1));
                let mut expect_r = Rng(seed.wrapping_mul(0x9e3779b97f4a7c15) ^ (sid as u64 + 1));
                let (mut sent, mut got) = (0u32, 0u32);
                while (sent as usize) < CHUNKS || (got as usize) < CHUNKS {
                    if (sent as usize) < CHUNKS && (sent <= got || r.below(2) == 0 || got as usize == CHUNKS) { let c = chunk(cid, sent, &mut content); client.enqueue_chunk(c).await.map_err(|e| format!("agent {cid} enqueue: {e}"))?; sent += 1; }
                    else if (got as usize) < CHUNKS { let want = chunk(sid, got, &mut expect_r);
                        let c = tokio::time::timeout(Duration::from_secs(20), client.dequeue_chunk()).await.map_err(|_| format!("agent {cid} (client, protocol {proto}): chunk #{got} of its counterpart never arrived"))?.map_err(|e| format!("agent {cid} dequeue: {e}"))?;
                        if c != want { return Err(format!("agent {cid} (client, protocol {proto}) received as chunk #{got} {} bytes starting {:?}, expected {} bytes starting {:?} (sender {sid}, sequence {got})", c.len(), &c[..c.len().min(3)], want.len(), &want[..want.len().min(3)])); }
                        got += 1; }
                    if r.below(3) == 0 { tokio::task::yield_now().await; }
                }
                Ok::<u64, String>(CHUNKS as u64)
            }));
            tasks.push(tokio::spawn(async move {
                let mut r = Rng(seed.wrapping_mul(0x9e3779b97f4a7c15) ^ (sid as u64 + 101)); let mut content = Rng(seed.wrapping_mul(0x9e3779b97f4a7c15) ^ (sid as u64 + 1));
                let mut expect_r = Rng(seed.wrapping_mul(0x9e3779b97f4a7c15) ^ (cid as u64 + 1));
                let (mut sent, mut got) = (0u32, 0u32);
                while (sent as usize) < CHUNKS || (got as usize) < CHUNKS {
                    if (sent as usize) < CHUNKS && (sent <= got || r.below(2) == 0 || got as usize == CHUNKS) { let c = chunk(sid, sent, &mut content); server.enqueue_chunk(c).await.map_err(|e| format!("agent {sid} enqueue: {e}"))?; sent += 1; }
                    else if (got as usize) < CHUNKS { let want = chunk(cid, got, &mut expect_r);
                        let c = tokio::time::timeout(Duration::from_secs(20), server.dequeue_chunk()).await.map_err(|_| format!("agent {sid} (server, protocol {proto}): chunk #{got} of its counterpart never arrived"))?.map_err(|e| format!("agent {sid} dequeue: {e}"))?;
                        if c != want { return Err(format!("agent {sid} (server, protocol {proto}) received as chunk #{got} {} bytes starting {:?}, expected {} bytes starting {:?} (sender {cid}, sequence {got})", c.len(), &c[..c.len().min(3)], want.len(), &want[..want.len().min(3)])); }
                        got += 1; }
                    if r.below(3) == 0 { tokio::task::yield_now().await; }
                }
                Ok::<u64, String>(CHUNKS as u64)
            }));
        }
    }
    let (ra, rb) = (pa.spawn(), pb.spawn());
    let mut n = 0u64;
    for t in tasks { n += t.await.map_err(|e| format!("task: {e}"))??; }
    ra.abort().await; rb.abort().await;
    let _ = std::fs::remove_file(&dir);
    Ok(n)
}
/// a receiver that starts late: 150 chunks are outstanding on one protocol before the first is taken (the per-agent queue holds 100) — back-pressure may delay, nothing may be lost
async fn backlog(seed: u64) -> Result<u64, String> {
    let dir = std::env::temp_dir().join(format!("verif-c20b-{}-{seed}", std::process::id()));
    let _ = std::fs::remove_file(&dir);
    let listener = tokio::net::UnixListener::bind(&dir).map_err(|e| format!("bind: {e}"))?;
    let (a, b) = tokio::join!(Bearer::connect_unix(&dir), Bearer::accept_unix(&listener));
    let (a, (b, _)) = (a.map_err(|e| format!("connect: {e}"))?, b.map_err(|e| format!("accept: {e}"))?);
    let mut pa = Plexer::new(a); let mut pb = Plexer::new(b);
    let mut client = pa.subscribe_client(5); let mut server = pb.subscribe_server(5);
    let mut other_c = pa.subscribe_client(6); let mut other_s = pb.subscribe_server(6);
    let (ra, rb) = (pa.spawn(), pb.spawn());
    const N: u32 = 150;
    let sender = tokio::spawn(async move { for i in 0..N { client.enqueue_chunk(vec![(i >> 8) as u8, i as u8, seed as u8]).await.map_err(|e| format!("enqueue #{i}: {e}"))?; } Ok::<(), String>(()) });
    // another protocol keeps flowing meanwhile
    let side = tokio::spawn(async move { for i in 0..20u8 { other_c.enqueue_chunk(vec![i]).await.map_err(|e| format!("{e}"))?; let c = tokio::time::timeout(Duration::from_secs(20), other_s.dequeue_chunk()).await.map_err(|_| format!("protocol 6 stalled at chunk {i} while protocol 5 had a backlog"))?.map_err(|e| format!("{e}"))?; if c != vec![i] { return Err(format!("protocol 6 received {c:?} as chunk {i}")); } } Ok::<(), String>(()) });
    tokio::time::sleep(Duration::from_millis(300)).await;
    for i in 0..N {
        let c = tokio::time::timeout(Duration::from_secs(20), server.dequeue_chunk()).await.map_err(|_| format!("backlog of {N} chunks on one protocol: chunk #{i} never arrived (the receiver started 300 ms late)"))?.map_err(|e| format!("dequeue: {e}"))?;
        if c != vec![(i >> 8) as u8, i as u8, seed as u8] { return Err(format!("backlog of {N} chunks on one protocol: chunk #{i} arrived as {c:?}")); }
    }
    sender.await.map_err(|e| format!("{e}"))??;
    let _ = side.await.map_err(|e| format!("{e}"))?;      // the side flow may legitimately wait behind the backlog (one socket); it must not see wrong data
    ra.abort().await; rb.abort().await; let _ = std::fs::remove_file(&dir);
    Ok(N as u64)
}
fn main() {
    let rounds: u64 = if std::env::args().any(|a| a == "thorough") { 120 } else { 12 };
    let rt = tokio::runtime::Builder::new_multi_thread().worker_threads(4).enable_all().build().unwrap();
    let mut n = 0u64;
    for seed in 1..=rounds {
        match rt.block_on(round(seed)) { Ok(k) => n += k, Err(e) => { println!("VIOLATED: round {seed}: {e}"); std::process::exit(1); } }
        if seed <= 3 { match rt.block_on(backlog(seed)) { Ok(k) => n += k, Err(e) => { println!("VIOLATED: backlog round {seed}: {e}"); std::process::exit(1); } } }
    }
    println!("checked {n} chunks delivered exactly once and in order over {rounds} rounds of 12 concurrent agents on 3 protocols, both roles, both directions");
}
