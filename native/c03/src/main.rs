//! bounded(every value of each container wrapper with at most 3 entries over the element pool {0, 1, 23, 24, 255, 256, 65536}):
//! the real encoder writes exactly the framing the property prescribes (computed here by an independent 20-line head writer),
//! and the real decoder reads the value back, variant included. Exit 1 and print the first failing value if not.
use pallas_codec::minicbor;
use pallas_codec::utils::{KeyValuePairs, NonEmptyKeyValuePairs, NonEmptySet, OrderPreservingProperties, Set, TagWrap, MaybeIndefArray, Nullable};

const POOL: [u32; 7] = [0, 1, 23, 24, 255, 256, 65536];

fn head(major: u8, v: u64, out: &mut Vec<u8>) {
    let m = major << 5;
    if v < 24 { out.push(m | v as u8) }
    else if v <= 0xff { out.push(m | 24); out.push(v as u8) }
    else if v <= 0xffff { out.push(m | 25); out.extend_from_slice(&(v as u16).to_be_bytes()) }
    else if v <= 0xffff_ffff { out.push(m | 26); out.extend_from_slice(&(v as u32).to_be_bytes()) }
    else { out.push(m | 27); out.extend_from_slice(&v.to_be_bytes()) }
}
fn fail(what: &str, detail: String) -> ! { println!("VIOLATED: {what}: {detail}"); std::process::exit(1) }
fn hex(b: &[u8]) -> String { b.iter().map(|x| format!("{x:02x}")).collect() }

fn each_list(max: usize, mut f: impl FnMut(&[u32])) {
    for len in 0..=max {
        let mut idx = vec![0usize; len];
        loop {
            let v: Vec<u32> = idx.iter().map(|&i| POOL[i]).collect();
            f(&v);
            let mut k = len; let mut done = len == 0;
            while k > 0 { k -= 1; idx[k] += 1; if idx[k] < POOL.len() { break; } idx[k] = 0; if k == 0 { done = true; } }
            if done { break; }
        }
    }
}

fn main() {
    let mut n = 0u64;
    // KeyValuePairs / NonEmptyKeyValuePairs: definite vs indefinite framing kept, for empty maps too
    each_list(3, |ks| {
        let items: Vec<(u32, u32)> = ks.iter().map(|&k| (k, k ^ 1)).collect();
        for indef in [false, true] {
            let mut expect = Vec::new();
            if indef { expect.push(0xbf) } else { head(5, items.len() as u64, &mut expect) }
            for (k, v) in &items { head(0, *k as u64, &mut expect); head(0, *v as u64, &mut expect); }
            if indef { expect.push(0xff) }
            let v = if indef { KeyValuePairs::Indef(items.clone()) } else { KeyValuePairs::Def(items.clone()) };
            let got = minicbor::to_vec(&v).unwrap();
            if got != expect { fail("KeyValuePairs::encode framing", format!("{v:?} -> {} (expected {})", hex(&got), hex(&expect))); }
            match minicbor::decode::<KeyValuePairs<u32, u32>>(&got) { Ok(b) if b == v => {}, o => fail("KeyValuePairs round trip", format!("{v:?} -> {} -> {o:?}", hex(&got))) }
            n += 1;
            if !items.is_empty() {
                let v = if indef { NonEmptyKeyValuePairs::Indef(items.clone()) } else { NonEmptyKeyValuePairs::Def(items.clone()) };
                let got = minicbor::to_vec(&v).unwrap();
                if got != expect { fail("NonEmptyKeyValuePairs::encode framing", format!("{v:?} -> {} (expected {})", hex(&got), hex(&expect))); }
                match minicbor::decode::<NonEmptyKeyValuePairs<u32, u32>>(&got) { Ok(b) if b == v => {}, o => fail("NonEmptyKeyValuePairs round trip", format!("{v:?} -> {} -> {o:?}", hex(&got))) }
                n += 1;
            }
        }
    });
    // Set / NonEmptySet: tag 258 written, optional on input, any other tag rejected; MaybeIndefArray framing; OrderPreservingProperties order
    each_list(3, |xs| {
        let mut arr = Vec::new(); head(4, xs.len() as u64, &mut arr); for x in xs { head(0, *x as u64, &mut arr); }
        let mut tagged = Vec::new(); head(6, 258, &mut tagged); tagged.extend_from_slice(&arr);
        let s: Set<u32> = Set::from(xs.to_vec());
        let got = minicbor::to_vec(&s).unwrap();
        if got != tagged { fail("Set::encode", format!("{xs:?} -> {} (expected {})", hex(&got), hex(&tagged))); }
        for input in [&tagged, &arr] {
            match minicbor::decode::<Set<u32>>(input) { Ok(b) if b == s => {}, o => fail("Set round trip", format!("{} -> {o:?}", hex(input))) }
        }
        let mut wrong = Vec::new(); head(6, 259, &mut wrong); wrong.extend_from_slice(&arr);
        if minicbor::decode::<Set<u32>>(&wrong).is_ok() { fail("Set::decode", format!("accepted a set under tag 259: {}", hex(&wrong))); }
        n += 1;
        if let Ok(ne) = NonEmptySet::try_from(xs.to_vec()) {
            let got = minicbor::to_vec(&ne).unwrap();
            if got != tagged { fail("NonEmptySet::encode", format!("{xs:?} -> {} (expected {})", hex(&got), hex(&tagged))); }
            for input in [&tagged, &arr] {
                match minicbor::decode::<NonEmptySet<u32>>(input) { Ok(b) if b == ne => {}, o => fail("NonEmptySet round trip", format!("{} -> {o:?}", hex(input))) }
            }
            if minicbor::decode::<NonEmptySet<u32>>(&wrong).is_ok() { fail("NonEmptySet::decode", format!("accepted a set under tag 259: {}", hex(&wrong))); }
            n += 1;
        }
        for indef in [false, true] {
            let mut expect = Vec::new();
            if indef { expect.push(0x9f); for x in xs { head(0, *x as u64, &mut expect); } expect.push(0xff) } else { expect = arr.clone() }
            let v = if indef { MaybeIndefArray::Indef(xs.to_vec()) } else { MaybeIndefArray::Def(xs.to_vec()) };
            let got = minicbor::to_vec(&v).unwrap();
            if got != expect { fail("MaybeIndefArray::encode framing", format!("{v:?} -> {} (expected {})", hex(&got), hex(&expect))); }
            match minicbor::decode::<MaybeIndefArray<u32>>(&got) { Ok(b) if b == v => {}, o => fail("MaybeIndefArray round trip", format!("{v:?} -> {o:?}")) }
            n += 1;
        }
        let mut props = Vec::new(); head(5, xs.len() as u64, &mut props); for x in xs { head(0, *x as u64, &mut props); }
        let p: OrderPreservingProperties<u32> = OrderPreservingProperties::from(xs.to_vec());
        let got = minicbor::to_vec(&p).unwrap();
        if got != props { fail("OrderPreservingProperties::encode", format!("{xs:?} -> {} (expected {})", hex(&got), hex(&props))); }
        match minicbor::decode::<OrderPreservingProperties<u32>>(&got) { Ok(b) if b == p => {}, o => fail("OrderPreservingProperties round trip", format!("{xs:?} -> {o:?}")) }
        n += 1;
    });
    // TagWrap<_, 24> and Nullable
    for x in POOL {
        let mut expect = Vec::new(); head(6, 24, &mut expect); head(0, x as u64, &mut expect);
        let t: TagWrap<u32, 24> = TagWrap::new(x);
        let got = minicbor::to_vec(&t).unwrap();
        if got != expect { fail("TagWrap::encode", format!("{x} -> {} (expected {})", hex(&got), hex(&expect))); }
        match minicbor::decode::<TagWrap<u32, 24>>(&got) { Ok(b) if b == t => {}, o => fail("TagWrap round trip", format!("{x} -> {o:?}")) }
        for v in [Nullable::Some(x), Nullable::Null, Nullable::Undefined] {
            let got = minicbor::to_vec(&v).unwrap();
            match minicbor::decode::<Nullable<u32>>(&got) { Ok(b) if b == v => {}, o => fail("Nullable round trip", format!("{v:?} -> {o:?}")) }
            n += 1;
        }
        n += 1;
    }
    println!("checked {n} wrapper values: framing as prescribed, decode(encode(v)) == v");
}
