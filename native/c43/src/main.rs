//! bounded(the three chunks of the repository's immutable-DB fixture; every secondary-index entry of the smallest and 11 entries of the larger
//! ones with the block offset replaced by each of {0, 16, previous-1, previous, offset with a byte cleared, offset-1, offset+1, chunk_len-1,
//! chunk_len, chunk_len+1, 2^40, 2^62, 2^63, u64::MAX} — each read in a child process so that an abort on allocation is seen; the chunk,
//! secondary and primary files truncated at {0, 1, 55, 57, half, len-1}): reading all blocks (and continuing after errors) never panics or aborts.
//! Exit 1 and print the first panicking corruption if not. Scratch copies live under the directory given as argument.
use pallas_hardano::storage::immutable::chunk;
use std::{fs, panic::{catch_unwind, AssertUnwindSafe}, path::{Path, PathBuf}};

const SRC: &str = "/repo/test_data";
const ENTRY: usize = 56;

fn drain(dir: &Path, name: &str) -> Result<(usize, usize), String> {
    catch_unwind(AssertUnwindSafe(|| {
        let (mut ok, mut err) = (0, 0);
        match chunk::read_blocks(dir, name) {
            Ok(it) => { for b in it.take(100_000) { match b { Ok(_) => ok += 1, Err(_) => err += 1 } } }
            Err(_) => err += 1,
        }
        (ok, err)
    })).map_err(|p| p.downcast_ref::<String>().cloned().or_else(|| p.downcast_ref::<&str>().map(|s| s.to_string())).unwrap_or_else(|| "<panic>".into()))
}

/// the same in a child process: an ABORT of the reader (allocation failure on a size taken from the index) must not kill the checker
fn drain_guarded(dir: &Path, name: &str) -> Result<(usize, usize), String> {
    let out = std::process::Command::new(std::env::current_exe().unwrap()).arg("--child").arg(dir).arg(name).output().map_err(|e| format!("cannot start child: {e}"))?;
    if out.status.success() { return Ok((0, 0)); }
    let so = String::from_utf8_lossy(&out.stdout).to_string();
    Err(if let Some(m) = so.lines().find_map(|l| l.strip_prefix("PANIC: ")) { m.to_string() } else { format!("process ended with {} ({})", out.status, String::from_utf8_lossy(&out.stderr).lines().last().unwrap_or("").trim()) })
}

fn main() {
    std::panic::set_hook(Box::new(|_| {}));
    if std::env::args().nth(1).as_deref() == Some("--child") {
        let dir = PathBuf::from(std::env::args().nth(2).unwrap()); let name = std::env::args().nth(3).unwrap();
        match drain(&dir, &name) { Ok(_) => std::process::exit(0), Err(m) => { println!("PANIC: {m}"); std::process::exit(3) } }
    }
    let scratch: PathBuf = std::env::args().nth(1).map(PathBuf::from).unwrap_or_else(|| std::env::temp_dir().join(format!("verif_c43_{}", std::process::id())));
    let _ = fs::remove_dir_all(&scratch);
    fs::create_dir_all(&scratch).unwrap();
    let mut chunks: Vec<(u64, String)> = fs::read_dir(SRC).unwrap().filter_map(|e| e.ok()).filter_map(|e| {
        let n = e.file_name().to_string_lossy().to_string();
        n.strip_suffix(".chunk").map(|s| (e.metadata().map(|m| m.len()).unwrap_or(u64::MAX), s.to_string()))
    }).collect();
    chunks.sort();
    if chunks.is_empty() { eprintln!("no chunk fixture"); std::process::exit(2) }
    let mut n = 0u64;
    for (ci, (_, name)) in chunks.iter().enumerate() {
        let name = name.clone();
        let file = |ext: &str| scratch.join(format!("{name}.{ext}"));
        let restore = || { for ext in ["chunk", "primary", "secondary"] { fs::copy(Path::new(SRC).join(format!("{name}.{ext}")), file(ext)).unwrap(); } };
        restore();
        let chunk_len = fs::metadata(file("chunk")).unwrap().len();
        let sec = fs::read(file("secondary")).unwrap();
        let entries = sec.len() / ENTRY;
        let fail = |what: String, msg: String| -> ! { println!("VIOLATED: {what}: reader panicked: {msg}"); let _ = fs::remove_dir_all(&scratch); std::process::exit(1) };
        match drain(&scratch, &name) { Ok((ok, _)) if ok > 0 => {}, other => { eprintln!("intact copy does not read: {other:?}"); std::process::exit(2) } }
        // every entry of the smallest chunk; the first 8, the middle one and the last 2 of the larger ones
        let picked: Vec<usize> = if ci == 0 { (0..entries).collect() } else { (0..entries).filter(|i| *i < 8 || *i == entries / 2 || *i + 2 >= entries).collect() };
        for i in picked {
            let at = i * ENTRY;
            let off = u64::from_be_bytes(sec[at..at + 8].try_into().unwrap());
            let prev = if i > 0 { u64::from_be_bytes(sec[at - ENTRY..at - ENTRY + 8].try_into().unwrap()) } else { 0 };
            // backward offsets (before the previous block), neighbours, the chunk's end, sizes no allocation can serve, the extremes
            for v in [0, 0x10, prev.saturating_sub(1), prev, off & !0xff00, off.wrapping_sub(1), off.wrapping_add(1), chunk_len.wrapping_sub(1), chunk_len, chunk_len + 1, 1u64 << 40, 1u64 << 62, 1u64 << 63, u64::MAX] {
                let mut d = sec.clone();
                d[at..at + 8].copy_from_slice(&v.to_be_bytes());
                fs::write(file("secondary"), &d).unwrap();
                n += 1;
                if let Err(m) = drain_guarded(&scratch, &name) { fail(format!("chunk {name}: block offset of secondary entry {i} of {entries} set to {v} (chunk file has {chunk_len} bytes)"), m) }
            }
        }
        restore();
        for ext in ["chunk", "secondary", "primary"] {
            let data = fs::read(file(ext)).unwrap();
            for cut in [0usize, 1, 55, 57, data.len() / 2, data.len().saturating_sub(1)] {
                if cut > data.len() { continue }
                fs::write(file(ext), &data[..cut]).unwrap();
                n += 1;
                if let Err(m) = drain(&scratch, &name) { fail(format!("chunk {name}: .{ext} file truncated to {cut} of {} bytes", data.len()), m) }
            }
            restore();
        }
        for ext in ["chunk", "primary", "secondary"] { let _ = fs::remove_file(file(ext)); }
    }
    let _ = fs::remove_dir_all(&scratch);
    println!("checked {n} corrupted databases: errors or fewer blocks, never a panic");
}
