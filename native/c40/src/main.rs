//! bounded(SEQS (default 2000; `thorough`: 40000) pseudo-random sequences of 1..25 staging operations — inputs / reference inputs / collateral inputs added and
//! removed (pool of 5, duplicates allowed), outputs added (lovelace 0 / 1 / 2^64-1, optionally one or two assets of 3 policies x 3 names with amounts 0 / 1 / 5 / 2^63 and
//! an inline datum or datum hash) and removed by index, fee, validity bounds, network id 0 / 1, disclosed signers, mint and burn (amounts +-1, +-5, i64::MAX, i64::MIN,
//! also cancelling ones) and their removal, spend and mint redeemers with execution units — followed by build_conway_raw): whenever the build returns Ok, the bytes decode to a
//! Conway transaction whose inputs (as a sorted set), outputs (in order, with address, lovelace, assets, datum), mint, collateral, reference inputs, signers, bounds, network id
//! and fee are the staged ones; the reported id is Blake2b-256 of the body bytes inside the built bytes; every redeemer's index is the position of its target among the sorted
//! inputs resp. the sorted mint policies; and neither staging nor building panics. Exit 1 with the sequence if not.
use pallas_addresses::Address;
use pallas_crypto::hash::{Hash, Hasher};
use pallas_primitives::conway;
use pallas_txbuilder::{BuildConway, ExUnits, Input, Output, StagingTransaction};
use std::collections::BTreeMap;

struct Rng(u64);
impl Rng { fn next(&mut self) -> u64 { self.0 ^= self.0 << 13; self.0 ^= self.0 >> 7; self.0 ^= self.0 << 17; self.0 } fn below(&mut self, n: u64) -> u64 { self.next() % n } }
fn h32(n: u64) -> Hash<32> { Hash::from([n as u8 + 1; 32]) }
fn h28(n: u64) -> Hash<28> { Hash::from([0x10 * (n as u8 + 1); 28]) }

/// what has been staged, kept independently
#[derive(Default, Clone)]
struct Model { inputs: Vec<(u64, u64)>, refs: Vec<(u64, u64)>, colls: Vec<(u64, u64)>, outputs: Vec<(u64, BTreeMap<(u64, Vec<u8>), u64>, Option<(bool, Vec<u8>)>)>, fee: Option<u64>,
    from: Option<u64>, until: Option<u64>, net: Option<u8>, signers: Vec<u64>, mint: BTreeMap<(u64, Vec<u8>), i128>, spend_rdm: Vec<(u64, u64)>, mint_rdm: Vec<u64> }

fn main() {
    let seqs: u64 = if std::env::args().any(|a| a == "thorough") { 40000 } else { 2000 };
    let addr = Address::from_bech32("addr1qx2fxv2umyhttkxyxp8x0dlpdt3k6cwng5pxj3jhsydzer3n0d3vllmyqwsx5wktcd8cc3sq835lu7drv2xwl2wywfgse35a3x").unwrap();
    let last = std::sync::Arc::new(std::sync::Mutex::new(String::new())); let l2 = last.clone();
    std::panic::set_hook(Box::new(move |info| { *l2.lock().unwrap() = format!("{info}").replace('\n', " "); }));
    let names: [Vec<u8>; 3] = [b"a".to_vec(), b"bb".to_vec(), vec![]];
    let mut n = 0u64; let mut built = 0u64;
    let mut deviations: BTreeMap<String, String> = BTreeMap::new();
    for seed in 1..=seqs {
        let mut r = Rng(seed.wrapping_mul(0x9e3779b97f4a7c15) | 1);
        let mut log: Vec<String> = Vec::new();
        let mut m = Model::default();
        let steps = 1 + r.below(25);
        let res = std::panic::catch_unwind(std::panic::AssertUnwindSafe(|| {
            let mut tx = StagingTransaction::new();
            for _ in 0..steps {
                let (a, b) = (r.below(5), r.below(3));
                match r.below(18) {
                    0 | 1 => { log.push(format!("input({a},{b})")); tx = tx.input(Input::new(h32(a), b)); m.inputs.push((a, b)); }
                    2 => { log.push(format!("remove_input({a},{b})")); tx = tx.remove_input(Input::new(h32(a), b)); m.inputs.retain(|x| *x != (a, b)); }
                    3 => { log.push(format!("reference_input({a},{b})")); tx = tx.reference_input(Input::new(h32(a), b)); m.refs.push((a, b)); }
                    4 => { log.push(format!("collateral_input({a},{b})")); tx = tx.collateral_input(Input::new(h32(a), b)); m.colls.push((a, b)); }
                    5 | 6 => { let lov = [0u64, 1, 2_000_000, u64::MAX][r.below(4) as usize]; let mut o = Output::new(addr.clone(), lov); let mut assets = BTreeMap::new();
                        for _ in 0..r.below(3) { let (p, nm, amt) = (r.below(3), names[r.below(3) as usize].clone(), [1u64, 5, 1 << 63, 0][r.below(4) as usize]);
                            if assets.get(&(p, nm.clone())).map(|x: &u64| x.checked_add(amt).is_none()).unwrap_or(false) { continue; }
                            o = o.add_asset(h28(p), nm.clone(), amt).unwrap(); *assets.entry((p, nm)).or_insert(0) += amt; }
                        let datum = match r.below(3) { 0 => { o = o.set_inline_datum(vec![0x18, 0x2a]); Some((true, vec![0x18, 0x2a])) } 1 => { o = o.set_datum_hash(h32(9)); Some((false, h32(9).to_vec())) } _ => None };
                        log.push(format!("output(lovelace {lov}, {} assets, datum {:?})", assets.len(), datum.as_ref().map(|d| d.0))); tx = tx.output(o); m.outputs.push((lov, assets, datum)); }
                    7 => { if !m.outputs.is_empty() { let i = r.below(m.outputs.len() as u64) as usize; log.push(format!("remove_output({i})")); tx = tx.remove_output(i); m.outputs.remove(i); } }
                    8 => { let f = [0u64, 170_000, u64::MAX][r.below(3) as usize]; log.push(format!("fee({f})")); tx = tx.fee(f); m.fee = Some(f); }
                    9 => { let s = r.below(1000); if r.below(2) == 0 { log.push(format!("valid_from_slot({s})")); tx = tx.valid_from_slot(s); m.from = Some(s); } else { log.push(format!("invalid_from_slot({s})")); tx = tx.invalid_from_slot(s); m.until = Some(s); } }
                    10 => { let id = r.below(2) as u8; log.push(format!("network_id({id})")); tx = tx.network_id(id); m.net = Some(id); }
                    11 => { log.push(format!("disclosed_signer({a})")); tx = tx.disclosed_signer(h28(a)); m.signers.push(a); }
                    12 | 13 | 14 => { let (p, nm) = (r.below(3), names[r.below(3) as usize].clone()); let amt = [1i64, -1, 5, -5, i64::MAX, i64::MIN][r.below(6) as usize];
                        let cur = *m.mint.get(&(p, nm.clone())).unwrap_or(&0); if cur + amt as i128 > i64::MAX as i128 || cur + (amt as i128) < i64::MIN as i128 { continue; }   // i64 overflow of the accumulator is not staged
                        log.push(format!("mint_asset(policy {p}, {:?}, {amt})", nm)); tx = tx.mint_asset(h28(p), nm.clone(), amt).unwrap(); *m.mint.entry((p, nm)).or_insert(0) += amt as i128; }
                    15 => { let (p, nm) = (r.below(3), names[r.below(3) as usize].clone()); log.push(format!("remove_mint_asset(policy {p}, {:?})", nm)); tx = tx.remove_mint_asset(h28(p), nm.clone()); m.mint.remove(&(p, nm)); }
                    16 => { if let Some(&(a, b)) = m.inputs.first() { log.push(format!("add_spend_redeemer({a},{b})")); tx = tx.add_spend_redeemer(Input::new(h32(a), b), vec![0x00], Some(ExUnits { mem: 1, steps: 2 })); if !m.spend_rdm.contains(&(a, b)) { m.spend_rdm.push((a, b)); } } }
                    _ => { if let Some(((p, _), _)) = m.mint.iter().next() { let p = *p; log.push(format!("add_mint_redeemer(policy {p})")); tx = tx.add_mint_redeemer(h28(p), vec![0x01], Some(ExUnits { mem: 3, steps: 4 })); if !m.mint_rdm.contains(&p) { m.mint_rdm.push(p); } } }
                }
            }
            log.push("build_conway_raw".into());
            tx.build_conway_raw()
        }));
        n += 1;
        let mut dev = |key: &str, what: String| { let text = format!("seed {seed}: after [{}]: {what}", log.join(", ")); let e = deviations.entry(key.to_string()).or_insert_with(|| text.clone()); if text.len() < e.len() { *e = text; } };
        let bt = match res { Err(_) => { let msg = last.lock().unwrap().clone(); let site = msg.split(" at ").nth(1).and_then(|t| t.split(':').next()).unwrap_or("?").rsplit('/').next().unwrap_or("?").replace(".rs", "");
                let kind: String = if msg.contains("NonZeroInt") || msg.contains("zero") { "zero_quantity".into() } else if msg.contains("not yet implement") { "todo".into() } else { "other".into() };
                dev(&format!("C40.panic.{site}.{kind}"), format!("PANICKED ({msg})")); continue }
            Ok(Err(_)) => continue,      // the builder refused the staged transaction: outside the statement
            Ok(Ok(bt)) => bt };
        built += 1;
        let tx: conway::Tx = match pallas_codec::minicbor::decode(&bt.tx_bytes.0) { Ok(t) => t, Err(e) => { dev("C40.built_bytes_do_not_decode", format!("the built bytes do not decode as a Conway transaction: {e}")); continue } };
        let body = &tx.transaction_body;
        if Hasher::<256>::hash(body.raw_cbor()).as_ref() != bt.tx_hash.0.as_slice() { dev("C40.id_is_not_the_hash_of_the_body_bytes", "the reported id is not Blake2b-256 of the body bytes in the built transaction".into()); }
        let key = |a: u64, b: u64| (h32(a), b);
        let mut want_in: Vec<_> = m.inputs.iter().map(|&(a, b)| key(a, b)).collect(); want_in.sort(); want_in.dedup();
        let got_in: Vec<_> = body.inputs.iter().map(|i| (i.transaction_id, i.index)).collect();
        let mut got_sorted = got_in.clone(); got_sorted.sort(); got_sorted.dedup();
        if got_sorted != want_in { dev("C40.inputs_differ", format!("inputs {got_in:?} are not the staged set")); }
        let listed = |v: &Option<pallas_primitives::NonEmptySet<conway::TransactionInput>>| -> Vec<(Hash<32>, u64)> { v.as_ref().map(|s| s.iter().map(|i| (i.transaction_id, i.index)).collect()).unwrap_or_default() };
        let want = |v: &Vec<(u64, u64)>| -> Vec<(Hash<32>, u64)> { let mut w: Vec<_> = v.iter().map(|&(a, b)| key(a, b)).collect(); w.sort(); w.dedup(); w };
        let srt = |mut v: Vec<(Hash<32>, u64)>| { v.sort(); v.dedup(); v };
        if srt(listed(&body.reference_inputs)) != want(&m.refs) { dev("C40.reference_inputs_differ", "reference inputs are not the staged set".into()); }
        if srt(listed(&body.collateral)) != want(&m.colls) { dev("C40.collateral_inputs_differ", "collateral inputs are not the staged set".into()); }
        if body.fee != m.fee.unwrap_or(0) { dev("C40.fee_differs", format!("fee {} where {:?} was staged", body.fee, m.fee)); }
        if body.validity_interval_start != m.from || body.ttl != m.until { dev("C40.validity_bounds_differ", format!("bounds ({:?}, {:?}) where ({:?}, {:?}) were staged", body.validity_interval_start, body.ttl, m.from, m.until)); }
        if body.network_id.map(u8::from) != m.net { dev("C40.network_id_differs", format!("network id {:?} where {:?} was staged", body.network_id, m.net)); }
        let got_s: Vec<Hash<28>> = body.required_signers.as_ref().map(|s| s.iter().cloned().collect()).unwrap_or_default();
        let mut ws: Vec<Hash<28>> = m.signers.iter().map(|&a| h28(a)).collect(); ws.sort(); ws.dedup(); let mut gs = got_s.clone(); gs.sort(); gs.dedup();
        if gs != ws { dev("C40.signers_differ", "required signers are not the staged set".into()); }
        // outputs, in order
        if body.outputs.len() != m.outputs.len() { dev("C40.output_count_differs", format!("{} outputs where {} were staged", body.outputs.len(), m.outputs.len())); }
        for (i, (o, (lov, assets, datum))) in body.outputs.iter().zip(m.outputs.iter()).enumerate() {
            let conway::TransactionOutput::PostAlonzo(o) = o else { dev("C40.output_form_differs", format!("output #{i} is not in the post-Alonzo form")); continue };
            let (coin, got_assets): (u64, BTreeMap<(Hash<28>, Vec<u8>), u64>) = match &o.value { conway::Value::Coin(c) => (*c, BTreeMap::new()),
                conway::Value::Multiasset(c, ma) => (*c, ma.iter().flat_map(|(p, a)| a.iter().map(move |(nm, q)| ((*p, nm.to_vec()), u64::from(q)))).collect()) };
            let want_assets: BTreeMap<(Hash<28>, Vec<u8>), u64> = assets.iter().filter(|(_, q)| **q != 0).map(|((p, nm), q)| ((h28(*p), nm.clone()), *q)).collect();   // a quantity of 0 is not held
            if coin != *lov || got_assets != want_assets || o.address.to_vec() != addr.to_vec() { dev("C40.output_value_or_address_differs", format!("output #{i}: {coin} lovelace and {} assets where {lov} and {} were staged", got_assets.len(), want_assets.len())); }
            let got_d = o.datum_option.as_ref().map(|d| match &**d { conway::DatumOption::Hash(h) => (false, h.to_vec()), conway::DatumOption::Data(w) => (true, w.0.raw_cbor().to_vec()) });
            if got_d != *datum { dev("C40.output_datum_differs", format!("output #{i}: datum {got_d:?} where {datum:?} was staged")); }
        }
        // mint: the staged non-zero quantities
        let got_mint: BTreeMap<(Hash<28>, Vec<u8>), i128> = body.mint.as_ref().map(|mm| mm.iter().flat_map(|(p, a)| a.iter().map(move |(nm, q)| ((*p, nm.to_vec()), i64::from(q) as i128))).collect()).unwrap_or_default();
        let want_mint: BTreeMap<(Hash<28>, Vec<u8>), i128> = m.mint.iter().filter(|(_, q)| **q != 0).map(|((p, nm), q)| ((h28(*p), nm.clone()), *q)).collect();
        if got_mint != want_mint { dev("C40.mint_differs", format!("mint {got_mint:?} where {want_mint:?} was staged")); }
        // redeemers point at their targets in canonical order
        let policies: Vec<Hash<28>> = { let mut p: Vec<_> = body.mint.as_ref().map(|mm| mm.keys().cloned().collect()).unwrap_or_default(); p.sort(); p };
        if let Some(rd) = &tx.transaction_witness_set.redeemer { if let conway::Redeemers::List(l) = &**rd { for x in l.iter() {
            let ok = match x.tag { conway::RedeemerTag::Spend => m.spend_rdm.iter().any(|&(a, b)| want_in.get(x.index as usize) == Some(&key(a, b))),
                conway::RedeemerTag::Mint => m.mint_rdm.iter().any(|&p| policies.get(x.index as usize) == Some(&h28(p))), _ => false };
            if !ok { dev("C40.redeemer_points_elsewhere", format!("a {:?} redeemer with index {} does not point at a staged target in canonical order", x.tag, x.index)); } } } }
    }
    for (k, v) in &deviations { println!("DEVIATION: {k} {}", &v[..v.len().min(900)]); }
    if built < seqs / 20 { println!("VIOLATED: only {built} of {n} sequences built — the generator lost its footing"); std::process::exit(1); }
    println!("checked {n} staging sequences ({built} built and compared field by field)");
}
