//! bounded(every sequence of at most N operations (N = 7, thorough 8) over {roll_forward of a fresh point, roll_forward of a point already in the
//! buffer, roll_back to the oldest / a middle / the latest / an absent point, pop_with_depth 0 / 1 / 2 / 5}): after every operation the buffer
//! equals a plain list model (a chain suffix) — size, peek order, oldest, latest, position of every point seen so far — roll_back reports
//! Handled exactly when the point is in the buffer (first occurrence kept, everything after it dropped) and OutOfScope after clearing it otherwise,
//! pop_with_depth returns exactly the oldest points beyond the depth, in order. Sequences of pops followed by pushes wrap the VecDeque's storage.
//! Exit 1 with the first failing sequence if not.
use pallas_network::miniprotocols::chainsync::{RollbackBuffer, RollbackEffect};
use pallas_network::miniprotocols::Point;

fn fail(msg: String) -> ! { println!("VIOLATED: {msg}"); std::process::exit(1) }
fn effname(e: &RollbackEffect) -> &'static str { match e { RollbackEffect::Handled => "Handled", RollbackEffect::OutOfScope => "OutOfScope" } }
fn pt(k: u64) -> Point { Point::Specific(k, vec![k as u8; 4]) }
#[derive(Clone, Copy, Debug)]
enum Op { Fresh, Repeat, BackOldest, BackMiddle, BackLatest, BackAbsent, Pop(usize) }
const OPS: [Op; 10] = [Op::Fresh, Op::Repeat, Op::BackOldest, Op::BackMiddle, Op::BackLatest, Op::BackAbsent, Op::Pop(0), Op::Pop(1), Op::Pop(2), Op::Pop(5)];

fn run(seq: &[Op], n: &mut u64) {
    let mut buf = RollbackBuffer::new();
    let mut model: Vec<u64> = vec![];
    let mut next = 1u64;
    let mut log = String::new();
    for op in seq {
        match *op {
            Op::Fresh => { buf.roll_forward(pt(next)); model.push(next); log += &format!("roll_forward({next}) "); next += 1; }
            Op::Repeat => { if let Some(k) = model.first().copied() { buf.roll_forward(pt(k)); model.push(k); log += &format!("roll_forward({k} again) "); } else { continue } }
            Op::BackOldest | Op::BackMiddle | Op::BackLatest | Op::BackAbsent => {
                let target = match *op { Op::BackOldest => model.first().copied(), Op::BackMiddle => model.get(model.len() / 2).copied(), Op::BackLatest => model.last().copied(), _ => Some(1000) };
                let Some(k) = target else { continue };
                log += &format!("roll_back({k}) ");
                let eff = buf.roll_back(&pt(k));
                match model.iter().position(|x| *x == k) {
                    Some(i) => { model.truncate(i + 1); if !matches!(eff, RollbackEffect::Handled) { fail(format!("{log}: the point is in the buffer but roll_back reports {}", effname(&eff))); } }
                    None => { model.clear(); if !matches!(eff, RollbackEffect::OutOfScope) { fail(format!("{log}: the point is not in the buffer but roll_back reports {}", effname(&eff))); } }
                }
            }
            Op::Pop(d) => {
                log += &format!("pop_with_depth({d}) ");
                let got: Vec<Point> = buf.pop_with_depth(d);
                let ready = model.len().saturating_sub(d);
                let want: Vec<Point> = model.drain(0..ready).map(pt).collect();
                if got != want { fail(format!("{log}: pop_with_depth returned {} points, the oldest beyond the depth are {}", got.len(), want.len())); }
            }
        }
        // the buffer is the model
        let have: Vec<Point> = buf.peek().cloned().collect();
        let want: Vec<Point> = model.iter().map(|k| pt(*k)).collect();
        if have != want || buf.size() != model.len() { fail(format!("{log}: buffer holds {} points, the chain suffix has {} (or their order differs)", have.len(), want.len())); }
        if buf.oldest() != want.first() || buf.latest() != want.last() { fail(format!("{log}: oldest() / latest() are not the ends of the buffer")); }
        for k in 1..next.max(2) { let p = buf.position(&pt(k)); if p != model.iter().position(|x| *x == k) { fail(format!("{log}: position({k}) is {p:?}, the point sits at {:?}", model.iter().position(|x| *x == k))); } }
        if buf.position(&pt(1000)).is_some() { fail(format!("{log}: position of an absent point is Some")); }
        *n += 1;
    }
}

fn main() {
    let depth: usize = if std::env::args().nth(1).as_deref() == Some("thorough") { 8 } else { 7 };
    let mut n = 0u64;
    let mut seq: Vec<usize> = vec![];
    // depth-first enumeration of all sequences up to `depth`
    fn rec(seq: &mut Vec<usize>, depth: usize, n: &mut u64) {
        if seq.len() == depth { let ops: Vec<Op> = seq.iter().map(|i| OPS[*i]).collect(); run(&ops, n); }
        if seq.len() == depth { return; }
        for i in 0..OPS.len() { seq.push(i); rec(seq, depth, n); seq.pop(); }
    }
    rec(&mut seq, depth, &mut n);
    println!("checked {n} buffer states over every operation sequence of length {depth}");
}
