//! bounded(two databases built from the repository's three real chunks — as they are, and re-numbered with an EMPTY chunk between the
//! first two — and, for each, every 37th block of the immutable chain plus the first and last block of every chunk as the requested
//! point, exact and fuzzy (slot only), plus the origin and a point that is not on the chain): read_blocks_from_point returns exactly
//! the suffix of read_blocks that starts at the requested block (for a fuzzy point: at the first block at or after the slot), and an
//! error for a point that is not there. Exit 1 with the first failing (database, point) if not.
//! Argument: a scratch directory (created and removed by the program).
use std::path::{Path, PathBuf};
use pallas_hardano::storage::immutable::{read_blocks, read_blocks_from_point, Point};
use pallas_traverse::MultiEraBlock;

fn fail(msg: String) -> ! { println!("VIOLATED: {msg}"); std::process::exit(1) }
fn copy_chunk(src: &Path, from: &str, dir: &Path, to: &str) {
    for ext in ["chunk", "primary", "secondary"] { std::fs::copy(src.join(from).with_extension(ext), dir.join(to).with_extension(ext)).expect("copy chunk"); }
}
fn chain(dir: &Path) -> Vec<(u64, Vec<u8>)> {
    read_blocks(dir).expect("read_blocks").map(|b| { let b = b.expect("block"); let b = MultiEraBlock::decode(&b).expect("decode"); (b.slot(), b.hash().to_vec()) }).collect()
}
fn hex(b: &[u8]) -> String { b.iter().take(6).map(|x| format!("{x:02x}")).collect::<String>() + ".." }

fn main() {
    let scratch = PathBuf::from(std::env::args().nth(1).unwrap_or_else(|| "/verif/.build/scratch/c42".into()));
    let src = Path::new("/repo/test_data");
    let _ = std::fs::remove_dir_all(&scratch);
    let plain = scratch.join("plain"); let gap = scratch.join("gap");
    std::fs::create_dir_all(&plain).unwrap(); std::fs::create_dir_all(&gap).unwrap();
    for (from, to) in [("01285", "01285"), ("01836", "01836"), ("02019", "02019")] { copy_chunk(src, from, &plain, to); }
    for (from, to) in [("01285", "00001"), ("01836", "00003"), ("02019", "00004")] { copy_chunk(src, from, &gap, to); }
    // an empty chunk: version byte + offsets that never leave 0, no secondary entries, no blocks
    let mut primary = vec![1u8]; primary.extend_from_slice(&[0u8; 16]);
    std::fs::write(gap.join("00002.primary"), primary).unwrap();
    std::fs::write(gap.join("00002.secondary"), []).unwrap();
    std::fs::write(gap.join("00002.chunk"), []).unwrap();

    let reference = chain(&plain);
    if reference.len() < 100 { eprintln!("the test database has only {} blocks", reference.len()); std::process::exit(2); }
    let mut n = 0u64;
    for (name, dir) in [("the three real chunks", &plain), ("the same chunks with an empty chunk in between", &gap)] {
        let blocks = chain(dir);
        if blocks != reference { fail(format!("{name}: read_blocks yields {} blocks, the chain has {}", blocks.len(), reference.len())); }
        // chunk boundaries = places where the slot jumps by more than a chunk's worth; plus a regular sample
        let mut picks: Vec<usize> = (0..blocks.len()).step_by(37).collect();
        for i in 1..blocks.len() { if blocks[i].0 - blocks[i - 1].0 > 21600 { picks.push(i - 1); picks.push(i); } }
        picks.push(0); picks.push(blocks.len() - 1);
        picks.sort(); picks.dedup();
        for &i in &picks {
            let (slot, hash) = &blocks[i];
            for fuzzy in [false, true] {
                let point = Point::Specific(*slot, if fuzzy { vec![] } else { hash.clone() });
                let got: Vec<(u64, Vec<u8>)> = match read_blocks_from_point(dir, point) {
                    Ok(it) => it.map(|b| { let b = b.expect("block"); let b = MultiEraBlock::decode(&b).expect("decode"); (b.slot(), b.hash().to_vec()) }).collect(),
                    Err(e) => fail(format!("{name}: reading from block #{i} (slot {slot}, hash {}{}) fails with {e:?}; the block is on the chain", hex(hash), if fuzzy { ", slot-only point" } else { "" })),
                };
                if got[..] != blocks[i..] {
                    fail(format!("{name}: reading from block #{i} (slot {slot}, hash {}{}) returns {} blocks starting at slot {:?}; the suffix from that block has {} blocks",
                        hex(hash), if fuzzy { ", slot-only point" } else { "" }, got.len(), got.first().map(|x| x.0), blocks.len() - i));
                }
                n += 1;
            }
        }
        // a block that is not on the chain: right slot, wrong hash
        let (slot, _) = &blocks[blocks.len() / 2];
        if let Ok(it) = read_blocks_from_point(dir, Point::Specific(*slot, vec![0xab; 32])) { let k = it.count(); fail(format!("{name}: a point with a hash that is not on the chain (slot {slot}) yields {k} blocks instead of an error")); }
        n += 1;
    }
    let _ = std::fs::remove_dir_all(&scratch);
    println!("checked {n} reads from a point: each returns exactly the chain suffix starting at the requested block");
}
