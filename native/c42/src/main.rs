//! bounded(two databases built from the repository's three real chunks — as they are, and re-numbered with an EMPTY chunk between the
//! first two — and, for each, every 37th block of the immutable chain plus the first and last block of every chunk as the requested
//! point, exact and fuzzy (slot only), plus the origin and a point that is not on the chain): read_blocks_from_point returns exactly
//! the suffix of read_blocks that starts at the requested block (for a fuzzy point: at the first block at or after the slot), and an
//! error for a point that is not there. Third database: the eight Byron block fixtures, one chunk per epoch, each chunk opened by an epoch
//! boundary block (the genesis boundary block re-issued for that epoch), indexes written the way the node lays them out. Exit 1 with the first failing (database, point) if not.
//! Argument: a scratch directory (created and removed by the program).
use std::path::{Path, PathBuf};
use pallas_hardano::storage::immutable::{read_blocks, read_blocks_from_point, Point};
use pallas_traverse::MultiEraBlock;

fn fail(msg: String) -> ! { println!("VIOLATED: {msg}"); std::process::exit(1) }
fn copy_chunk(src: &Path, from: &str, dir: &Path, to: &str) {
    for ext in ["chunk", "primary", "secondary"] { std::fs::copy(src.join(from).with_extension(ext), dir.join(to).with_extension(ext)).expect("copy chunk"); }
}
fn chain(dir: &Path) -> Vec<(u64, Vec<u8>)> {
    read_blocks(dir).expect("read_blocks").map(|b| { let b = b.expect("block"); let b = MultiEraBlock::decode(&b).expect("decode"); (b.slot(), b.hash().to_vec()) }).collect()
}
fn hex(b: &[u8]) -> String { b.iter().take(6).map(|x| format!("{x:02x}")).collect::<String>() + ".." }

const CHUNK_SLOTS: u64 = 21600;
struct Blk { bytes: Vec<u8>, slot: u64, hash: Vec<u8>, ebb_epoch: Option<u64> }
fn unhex(t: &str) -> Vec<u8> { let t = t.trim().as_bytes(); (0..t.len() / 2).map(|i| u8::from_str_radix(std::str::from_utf8(&t[2 * i..2 * i + 2]).unwrap(), 16).expect("hex")).collect() }
fn load(bytes: Vec<u8>) -> Blk {
    let (slot, hash, ebb_epoch) = { let b = MultiEraBlock::decode(&bytes).expect("fixture block decodes");
        let ebb = match &b { MultiEraBlock::EpochBoundary(x) => Some(x.header.consensus_data.epoch_id), _ => None }; (b.slot(), b.hash().to_vec(), ebb) };
    Blk { bytes, slot, hash, ebb_epoch }
}
/// one chunk with its primary and secondary index the way the node lays them out: 56-byte secondary entries (block offset, header offset and
/// size, checksum, header hash, then the slot for a regular block and the EPOCH for a boundary block), primary offsets per relative slot with
/// relative slot 0 reserved for the boundary block
fn write_chunk(dir: &Path, number: u64, blocks: &[&Blk]) {
    let name = format!("{number:05}");
    let (mut chunk, mut secondary) = (Vec::new(), Vec::new());
    let mut filled = std::collections::BTreeSet::new();
    for b in blocks {
        filled.insert(match b.ebb_epoch { Some(_) => 0, None => b.slot - number * CHUNK_SLOTS + 1 });
        secondary.extend_from_slice(&(chunk.len() as u64).to_be_bytes()); secondary.extend_from_slice(&[0u8; 8]);
        secondary.extend_from_slice(&b.hash); secondary.extend_from_slice(&b.ebb_epoch.unwrap_or(b.slot).to_be_bytes());
        chunk.extend_from_slice(&b.bytes);
    }
    let mut primary = vec![1u8]; let mut offset = 0u32; primary.extend_from_slice(&offset.to_be_bytes());
    for rel in 0..=CHUNK_SLOTS { if filled.contains(&rel) { offset += 56; } primary.extend_from_slice(&offset.to_be_bytes()); }
    std::fs::write(dir.join(&name).with_extension("chunk"), chunk).unwrap();
    std::fs::write(dir.join(&name).with_extension("primary"), primary).unwrap();
    std::fs::write(dir.join(&name).with_extension("secondary"), secondary).unwrap();
}
/// the mainnet genesis boundary block re-issued for another epoch: only the epoch field of its consensus data is rewritten
fn ebb(genesis_hex: &str, epoch: u64) -> Option<Blk> {
    let e = match epoch { 0..=23 => format!("{epoch:02x}"), 24..=255 => format!("18{epoch:02x}"), _ => format!("19{epoch:04x}") };
    if genesis_hex.matches("8200810081a0").count() != 1 { return None; }
    let b = load(unhex(&genesis_hex.replace("8200810081a0", &format!("82{e}810081a0"))));
    if b.ebb_epoch == Some(epoch) && b.slot == epoch * CHUNK_SLOTS { Some(b) } else { None }
}
/// a Byron database: the eight Byron block fixtures, one chunk per epoch, every chunk opened by its boundary block
fn byron_db(src: &Path, dir: &Path) -> Option<Vec<(u64, Vec<u8>)>> {
    let genesis = std::fs::read_to_string(src.join("genesis.block")).ok()?;
    let mut chunks: std::collections::BTreeMap<u64, Vec<Blk>> = Default::default();
    for i in 1..=8 { let b = load(unhex(&std::fs::read_to_string(src.join(format!("byron{i}.block"))).ok()?)); let n = b.slot / CHUNK_SLOTS;
        if !chunks.contains_key(&n) { chunks.insert(n, vec![ebb(genesis.trim(), n)?]); } chunks.get_mut(&n).unwrap().push(b); }
    for blocks in chunks.values_mut() { blocks.sort_by_key(|b| (b.slot, b.ebb_epoch.is_none())); }
    for (n, blocks) in &chunks { write_chunk(dir, *n, &blocks.iter().collect::<Vec<_>>()); }
    // the newest chunk is not immutable yet and is never read
    let newest = *chunks.keys().last()?;
    Some(chunks.iter().filter(|(n, _)| **n != newest).flat_map(|(_, b)| b.iter().map(|b| (b.slot, b.hash.clone()))).collect())
}

fn main() {
    let scratch = PathBuf::from(std::env::args().nth(1).unwrap_or_else(|| "/verif/.build/scratch/c42".into()));
    let src = Path::new("/repo/test_data");
    let _ = std::fs::remove_dir_all(&scratch);
    let plain = scratch.join("plain"); let gap = scratch.join("gap");
    std::fs::create_dir_all(&plain).unwrap(); std::fs::create_dir_all(&gap).unwrap();
    for (from, to) in [("01285", "01285"), ("01836", "01836"), ("02019", "02019")] { copy_chunk(src, from, &plain, to); }
    for (from, to) in [("01285", "00001"), ("01836", "00003"), ("02019", "00004")] { copy_chunk(src, from, &gap, to); }
    // an empty chunk: version byte + offsets that never leave 0, no secondary entries, no blocks
    let mut primary = vec![1u8]; primary.extend_from_slice(&[0u8; 16]);
    std::fs::write(gap.join("00002.primary"), primary).unwrap();
    std::fs::write(gap.join("00002.secondary"), []).unwrap();
    std::fs::write(gap.join("00002.chunk"), []).unwrap();

    let reference = chain(&plain);
    if reference.len() < 100 { eprintln!("the test database has only {} blocks", reference.len()); std::process::exit(2); }
    let byron = scratch.join("byron"); std::fs::create_dir_all(&byron).unwrap();
    let byron_chain = byron_db(src, &byron);
    if byron_chain.is_none() { println!("note: the Byron database could not be built from the fixtures (genesis boundary block pattern not found) — skipped"); }
    let mut n = 0u64;
    let mut dbs = vec![("the three real chunks", &plain, reference.clone()), ("the same chunks with an empty chunk in between", &gap, reference.clone())];
    if let Some(c) = byron_chain { dbs.push(("a Byron database whose chunks open with an epoch boundary block", &byron, c)); }
    for (name, dir, reference) in dbs {
        let blocks = chain(dir);
        if blocks != reference { fail(format!("{name}: read_blocks yields {} blocks, the chain has {}", blocks.len(), reference.len())); }
        // chunk boundaries = places where the slot jumps by more than a chunk's worth; plus a regular sample
        let mut picks: Vec<usize> = (0..blocks.len()).step_by(37).collect();
        for i in 1..blocks.len() { if blocks[i].0 - blocks[i - 1].0 > 21600 { picks.push(i - 1); picks.push(i); } }
        picks.push(0); picks.push(blocks.len() - 1);
        picks.sort(); picks.dedup();
        for &i in &picks {
            let (slot, hash) = &blocks[i];
            for fuzzy in [false, true] {
                let point = Point::Specific(*slot, if fuzzy { vec![] } else { hash.clone() });
                let got: Vec<(u64, Vec<u8>)> = match read_blocks_from_point(dir, point) {
                    Ok(it) => it.map(|b| { let b = b.expect("block"); let b = MultiEraBlock::decode(&b).expect("decode"); (b.slot(), b.hash().to_vec()) }).collect(),
                    Err(e) => fail(format!("{name}: reading from block #{i} (slot {slot}, hash {}{}) fails with {e:?}; the block is on the chain", hex(hash), if fuzzy { ", slot-only point" } else { "" })),
                };
                // a slot-only point starts at the first block at or after the slot (a boundary block shares its slot with the block after it)
                let i = if fuzzy { blocks.iter().position(|b| b.0 >= *slot).unwrap_or(i) } else { i };
                if got[..] != blocks[i..] {
                    fail(format!("{name}: reading from block #{i} (slot {slot}, hash {}{}) returns {} blocks starting at slot {:?}; the suffix from that block has {} blocks",
                        hex(hash), if fuzzy { ", slot-only point" } else { "" }, got.len(), got.first().map(|x| x.0), blocks.len() - i));
                }
                n += 1;
            }
        }
        // a block that is not on the chain: right slot, wrong hash
        let (slot, _) = &blocks[blocks.len() / 2];
        if let Ok(it) = read_blocks_from_point(dir, Point::Specific(*slot, vec![0xab; 32])) { let k = it.count(); fail(format!("{name}: a point with a hash that is not on the chain (slot {slot}) yields {k} blocks instead of an error")); }
        n += 1;
    }
    let _ = std::fs::remove_dir_all(&scratch);
    println!("checked {n} reads from a point: each returns exactly the chain suffix starting at the requested block");
}
