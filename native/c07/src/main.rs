//! bounded(a family of PlutusData: 26 integers in all three representations (Int, BigUInt, BigNInt with and without leading zero bytes, magnitudes
//! up to 2^72), byte strings of 0, 1, 63, 64, 65, 127, 128, 129 and 200 bytes, and every array / map / constructor (tags 121, 122, 127, 1280, 1400 and
//! 102 with an explicit index) of at most 2 atoms in both the definite and the indefinite encoding, one level of nesting):
//!  - every value decodes back from its encoding to an equal value with the same container encodings, byte strings above 64 bytes are written as
//!    an indefinite string of 64-byte chunks (checked with an independent reader);
//!  - cmp is reflexive, antisymmetric and transitive on every triple of a 70-value sample, == agrees with cmp, definite and indefinite containers
//!    with equal items are equal, and integers compare by the value the three representations share (sign and magnitude).
//! Exit 1 with the first failing value(s) if not.
use pallas_codec::minicbor;
use pallas_codec::utils::{KeyValuePairs, MaybeIndefArray};
use pallas_primitives::{BigInt, BoundedBytes, Constr, PlutusData};
use std::cmp::Ordering;

fn fail(msg: String) -> ! { println!("VIOLATED: {msg}"); std::process::exit(1) }
fn int(i: i128) -> PlutusData { PlutusData::BigInt(BigInt::Int(pallas_primitives::Int(minicbor::data::Int::try_from(i).unwrap()))) }
fn buint(b: &[u8]) -> PlutusData { PlutusData::BigInt(BigInt::BigUInt(BoundedBytes::from(b.to_vec()))) }
fn bnint(b: &[u8]) -> PlutusData { PlutusData::BigInt(BigInt::BigNInt(BoundedBytes::from(b.to_vec()))) }
fn bytes(n: usize) -> PlutusData { PlutusData::BoundedBytes(BoundedBytes::from((0..n).map(|i| (i * 7 + 1) as u8).collect::<Vec<u8>>())) }
/// the integer the comparison sees (sign and magnitude), computed independently as (negative, minimal big-endian magnitude)
fn key(p: &PlutusData) -> Option<(bool, Vec<u8>)> {
    let strip = |b: &[u8]| -> Vec<u8> { let mut v = b.to_vec(); while v.first() == Some(&0) { v.remove(0); } v };
    match p { PlutusData::BigInt(BigInt::Int(i)) => { let v = i128::from(*i); Some((v < 0 && v != 0, strip(&v.unsigned_abs().to_be_bytes()))) }
              PlutusData::BigInt(BigInt::BigUInt(b)) => Some((false, strip(b))), PlutusData::BigInt(BigInt::BigNInt(b)) => Some((true, strip(b))), _ => None }
}
fn int_order(a: &(bool, Vec<u8>), b: &(bool, Vec<u8>)) -> Ordering {
    let num = |k: &(bool, Vec<u8>)| -> (i8, Vec<u8>) { if k.1.is_empty() { (0, vec![]) } else if k.0 { (-1, k.1.clone()) } else { (1, k.1.clone()) } };
    let (sa, ma) = num(a); let (sb, mb) = num(b);
    if sa != sb { return sa.cmp(&sb); }
    let mag = ma.len().cmp(&mb.len()).then(ma.cmp(&mb));
    if sa < 0 { mag.reverse() } else { mag }
}
/// independent reader of one byte-string item: returns (payload, chunk lengths or None when definite, bytes consumed)
fn read_bstr(b: &[u8]) -> Option<(Vec<u8>, Option<Vec<usize>>, usize)> {
    fn head(b: &[u8]) -> Option<(u8, u64, usize)> { let ib = *b.first()?; let (m, ai) = (ib >> 5, ib & 31);
        match ai { 0..=23 => Some((m, ai as u64, 1)), 24 => Some((m, *b.get(1)? as u64, 2)), 25 => Some((m, u16::from_be_bytes(b.get(1..3)?.try_into().ok()?) as u64, 3)),
                   26 => Some((m, u32::from_be_bytes(b.get(1..5)?.try_into().ok()?) as u64, 5)), 27 => Some((m, u64::from_be_bytes(b.get(1..9)?.try_into().ok()?), 9)), _ => None } }
    if *b.first()? == 0x5f {
        let (mut pos, mut out, mut lens) = (1usize, Vec::new(), Vec::new());
        loop { if *b.get(pos)? == 0xff { return Some((out, Some(lens), pos + 1)); }
               let (m, n, h) = head(&b[pos..])?; if m != 2 { return None; } out.extend_from_slice(b.get(pos + h..pos + h + n as usize)?); lens.push(n as usize); pos += h + n as usize; }
    }
    let (m, n, h) = head(b)?; if m != 2 { return None; }
    Some((b.get(h..h + n as usize)?.to_vec(), None, h + n as usize))
}

fn main() {
    let mut n = 0u64;
    let thorough = std::env::args().nth(1).as_deref() == Some("thorough");
    // ---- atoms ------------------------------------------------------------------------------------------------------------------------------
    let mut ints: Vec<PlutusData> = vec![];
    for v in [0i128, 1, -1, 2, -2, 255, 256, -255, -256, 65535, 65536, i64::MAX as i128, i64::MIN as i128, (1 << 64) - 1, -(1 << 64)] { ints.push(int(v)); }
    for b in [&[][..], &[0], &[1], &[0, 1], &[2], &[255], &[1, 0], &[0, 1, 0], &[1, 0, 0, 0, 0, 0, 0, 0, 0], &[0, 0, 1, 0, 0, 0, 0, 0, 0, 0, 0]] { ints.push(buint(b)); ints.push(bnint(b)); }
    let strs: Vec<PlutusData> = [0usize, 1, 63, 64, 65, 127, 128, 129, 200].iter().map(|l| bytes(*l)).collect();
    let mut atoms: Vec<PlutusData> = ints.clone(); atoms.extend(strs.iter().cloned());
    // ---- containers of <= 2 small atoms, both encodings, one level of nesting -----------------------------------------------------------------------
    let small: Vec<PlutusData> = vec![int(0), int(1), int(-1), buint(&[0, 1]), bytes(1), bytes(65)];
    let mut lists: Vec<Vec<PlutusData>> = vec![vec![]];
    for a in &small { lists.push(vec![a.clone()]); for b in &small { lists.push(vec![a.clone(), b.clone()]); } }
    let mut conts: Vec<PlutusData> = vec![];
    for l in &lists {
        for indef in [false, true] {
            let arr = |v: Vec<PlutusData>| if indef { MaybeIndefArray::Indef(v) } else { MaybeIndefArray::Def(v) };
            conts.push(PlutusData::Array(arr(l.clone())));
            for (tag, any) in [(121u64, None), (122, None), (127, None), (1280, None), (1400, None), (102, Some(3u64)), (102, Some(200))] {
                conts.push(PlutusData::Constr(Constr { tag, any_constructor: any, fields: arr(l.clone()) }));
            }
            if l.len() == 2 { let kv = vec![(l[0].clone(), l[1].clone())]; conts.push(PlutusData::Map(if indef { KeyValuePairs::Indef(kv) } else { KeyValuePairs::Def(kv) })); }
            if l.is_empty() { conts.push(PlutusData::Map(if indef { KeyValuePairs::Indef(vec![]) } else { KeyValuePairs::Def(vec![]) })); }
        }
    }
    let nested: Vec<PlutusData> = conts.iter().step_by(37).flat_map(|c| vec![PlutusData::Array(MaybeIndefArray::Def(vec![c.clone(), int(5)])), PlutusData::Array(MaybeIndefArray::Indef(vec![c.clone()])),
        PlutusData::Map(KeyValuePairs::Def(vec![(c.clone(), c.clone())])), PlutusData::Constr(Constr { tag: 121, any_constructor: None, fields: MaybeIndefArray::Indef(vec![c.clone(), c.clone()]) })]).collect();
    // ---- round trip --------------------------------------------------------------------------------------------------------------------------------
    for v in atoms.iter().chain(conts.iter()).chain(nested.iter()) {
        let enc = minicbor::to_vec(v).unwrap_or_else(|_| fail(format!("{v:?} cannot be encoded")));
        let back: PlutusData = minicbor::decode(&enc).unwrap_or_else(|e| fail(format!("{v:?} encodes to {} which does not decode: {e}", hex(&enc))));
        if back != *v || format!("{back:?}") != format!("{v:?}") { fail(format!("{v:?} encodes to {} and decodes to the different value {back:?}", hex(&enc))); }
        let again = minicbor::to_vec(&back).unwrap();
        if again != enc { fail(format!("{v:?}: re-encoding the decoded value gives different bytes")); }
        if let PlutusData::BoundedBytes(b) = v {
            let (payload, chunks, used) = read_bstr(&enc).unwrap_or_else(|| fail(format!("a byte string of {} bytes is not encoded as a CBOR byte string: {}", b.len(), hex(&enc))));
            if payload != **b || used != enc.len() { fail(format!("a byte string of {} bytes does not read back from its encoding", b.len())); }
            match (b.len() <= 64, &chunks) {
                (true, None) => {}
                (false, Some(ls)) if ls.iter().rev().skip(1).all(|l| *l == 64) && ls.last().map_or(false, |l| (1..=64).contains(l)) => {}
                _ => fail(format!("a byte string of {} bytes is encoded with chunk lengths {chunks:?}: the reference writes one definite string up to 64 bytes and 64-byte chunks above", b.len())),
            }
        }
        n += 1;
    }
    // ---- integers compare by the value their representations share ---------------------------------------------------------------------------------------
    for a in &ints { for b in &ints {
        let want = int_order(&key(a).unwrap(), &key(b).unwrap());
        if a.cmp(b) != want { fail(format!("{a:?} cmp {b:?} is {:?}, the integers compare {want:?}", a.cmp(b))); }
        n += 1;
    } }
    // ---- order laws on a sample ---------------------------------------------------------------------------------------------------------------------
    let mut sample: Vec<PlutusData> = vec![];
    if thorough { sample.extend(ints.iter().cloned()); sample.extend(strs.iter().cloned()); sample.extend(conts.iter().step_by(4).cloned()); sample.extend(nested.iter().step_by(2).cloned()); sample.truncate(320); }
    else { sample.extend(ints.iter().step_by(3).cloned()); sample.extend(strs.iter().step_by(2).cloned()); sample.extend(conts.iter().step_by(11).cloned()); sample.extend(nested.iter().step_by(5).cloned()); sample.truncate(70); }
    for a in &sample {
        if a.cmp(a) != Ordering::Equal { fail(format!("{a:?} does not compare equal to itself")); }
        for b in &sample {
            let ab = a.cmp(b);
            if b.cmp(a) != ab.reverse() { fail(format!("cmp is not antisymmetric on {a:?} and {b:?}")); }
            if (a == b) != (ab == Ordering::Equal) || a.partial_cmp(b) != Some(ab) { fail(format!("== / partial_cmp disagree with cmp on {a:?} and {b:?}")); }
            for c in &sample {
                let (bc, ac) = (b.cmp(c), a.cmp(c));
                if ab != Ordering::Greater && bc != Ordering::Greater && ac == Ordering::Greater { fail(format!("cmp is not transitive on {a:?} <= {b:?} <= {c:?}")); }
                if ab == Ordering::Equal && ac != bc { fail(format!("cmp: {a:?} equals {b:?} but they compare differently with {c:?}")); }
                n += 1;
            }
        }
    }
    // ---- definite and indefinite containers with equal items are equal -------------------------------------------------------------------------------------
    for l in &lists {
        let (d, i) = (PlutusData::Array(MaybeIndefArray::Def(l.clone())), PlutusData::Array(MaybeIndefArray::Indef(l.clone())));
        if d != i || d.cmp(&i) != Ordering::Equal { fail(format!("definite and indefinite arrays of {l:?} are not equal")); }
        let (d, i) = (PlutusData::Constr(Constr { tag: 122, any_constructor: None, fields: MaybeIndefArray::Def(l.clone()) }), PlutusData::Constr(Constr { tag: 122, any_constructor: None, fields: MaybeIndefArray::Indef(l.clone()) }));
        if d != i { fail(format!("definite and indefinite constructor fields {l:?} are not equal")); }
        if l.len() == 2 { let kv = vec![(l[0].clone(), l[1].clone())];
            if PlutusData::Map(KeyValuePairs::Def(kv.clone())) != PlutusData::Map(KeyValuePairs::Indef(kv)) { fail(format!("definite and indefinite maps of {l:?} are not equal")); } }
        n += 1;
    }
    println!("checked {n} round trips, comparisons and triples");
}
fn hex(b: &[u8]) -> String { b.iter().map(|x| format!("{x:02x}")).collect() }
