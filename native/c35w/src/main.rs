//! bounded(two real fixtures with their verification-key witnesses stripped: the Babbage transaction babbage3.tx — one key-locked input — and
//! the Conway transaction conway5.tx — a script-locked input validated by a REFERENCE script, collateral locked by a payment key whose
//! signature is its only vkey witness): phase-1 validation must stop at the witness check with VKWitnessMissing; with the signatures in
//! place the witness check must not object. Exit 1 with the first failing case if not.
//! (The cost models are left empty: the checks that need them come after the witness check.)
#[path = "/repo/pallas-validate/tests/common.rs"]
#[allow(dead_code, unused_imports)]
mod common;
use common::*;
use std::collections::BTreeMap;
use pallas_codec::minicbor;
use pallas_codec::utils::{Bytes, CborWrap, KeepRaw};
use pallas_primitives::alonzo::{Nonce, NonceVariant};
use pallas_primitives::babbage;
use pallas_primitives::conway::{CostModels, DRepVotingThresholds, DatumOption, ExUnits, PlutusScript, PoolVotingThresholds, RationalNumber, ScriptRef, Tx, Value};
use pallas_traverse::MultiEraTx;
use pallas_validate::{phase1::validate_txs, utils::{AccountState, BabbageProtParams, CertState, ConwayProtParams, Environment, MultiEraProtocolParameters, PostAlonzoError, UTxOs, ValidationError}};

fn rn(numerator: u64, denominator: u64) -> RationalNumber { RationalNumber { numerator, denominator } }
fn conway_params() -> ConwayProtParams {
    ConwayProtParams {
        system_start: chrono::DateTime::parse_from_rfc3339("2022-10-25T00:00:00Z").unwrap(),
        epoch_length: 432000,
        slot_length: 1,
        minfee_a: 44,
        minfee_b: 155381,
        max_block_body_size: 90112,
        max_transaction_size: 16384,
        max_block_header_size: 1100,
        key_deposit: 2000000,
        pool_deposit: 500000000,
        maximum_epoch: 18,
        desired_number_of_stake_pools: 500,
        pool_pledge_influence: rn(3, 10),
        expansion_rate: rn(3, 1000),
        treasury_growth_rate: rn(2, 10),
        protocol_version: (7, 0),
        min_pool_cost: 340000000,
        ada_per_utxo_byte: 4310,
        cost_models_for_script_languages: CostModels {
            plutus_v1: None,

            plutus_v2: None,
            plutus_v3: None,
            unknown: BTreeMap::default(),
        },
        execution_costs: pallas_primitives::ExUnitPrices {
            mem_price: rn(577, 10000),
            step_price: rn(721, 10000000),
        },
        max_tx_ex_units: ExUnits {
            mem: 14000000,
            steps: 10000000000,
        },
        max_block_ex_units: ExUnits {
            mem: 62000000,
            steps: 40000000000,
        },
        max_value_size: 5000,
        collateral_percentage: 150,
        max_collateral_inputs: 3,
        pool_voting_thresholds: PoolVotingThresholds {
            motion_no_confidence: rn(0, 1),
            committee_normal: rn(0, 1),
            committee_no_confidence: rn(0, 1),
            hard_fork_initiation: rn(0, 1),
            security_voting_threshold: rn(0, 1),
        },
        drep_voting_thresholds: DRepVotingThresholds {
            motion_no_confidence: rn(0, 1),
            committee_normal: rn(0, 1),
            committee_no_confidence: rn(0, 1),
            update_constitution: rn(0, 1),
            hard_fork_initiation: rn(0, 1),
            pp_network_group: rn(0, 1),
            pp_economic_group: rn(0, 1),
            pp_technical_group: rn(0, 1),
            pp_governance_group: rn(0, 1),
            treasury_withdrawal: rn(0, 1),
        },
        min_committee_size: 0,
        committee_term_limit: 0,
        governance_action_validity_period: 0,
        governance_action_deposit: 0,
        drep_deposit: 0,
        drep_inactivity_period: 0,
        minfee_refscript_cost_per_byte: rn(0, 1),
    }
}

fn babbage_params() -> BabbageProtParams {
    BabbageProtParams {
        system_start: chrono::DateTime::parse_from_rfc3339("2017-09-23T21:44:51Z").unwrap(),
        epoch_length: 432000, slot_length: 1, minfee_a: 44, minfee_b: 155381, max_block_body_size: 90112, max_transaction_size: 16384,
        max_block_header_size: 1100, key_deposit: 2000000, pool_deposit: 500000000, maximum_epoch: 18, desired_number_of_stake_pools: 500,
        pool_pledge_influence: rn(3, 10), expansion_rate: rn(3, 1000), treasury_growth_rate: rn(2, 10), decentralization_constant: rn(0, 1),
        extra_entropy: Nonce { variant: NonceVariant::NeutralNonce, hash: None }, protocol_version: (7, 0), min_pool_cost: 340000000, ada_per_utxo_byte: 4310,
        cost_models_for_script_languages: babbage::CostModels { plutus_v1: None, plutus_v2: None },
        execution_costs: babbage::ExUnitPrices { mem_price: rn(577, 10000), step_price: rn(721, 10000000) },
        max_tx_ex_units: ExUnits { mem: 14000000, steps: 10000000000 }, max_block_ex_units: ExUnits { mem: 62000000, steps: 40000000000 },
        max_value_size: 5000, collateral_percentage: 150, max_collateral_inputs: 3,
    }
}
fn witness_missing(r: &Result<(), ValidationError>) -> bool { matches!(r, Err(ValidationError::PostAlonzo(PostAlonzoError::VKWitnessMissing))) }
fn witness_objection(r: &Result<(), ValidationError>) -> bool {
    matches!(r, Err(ValidationError::PostAlonzo(PostAlonzoError::VKWitnessMissing)) | Err(ValidationError::PostAlonzo(PostAlonzoError::VKWrongSignature)))
}

fn main() {
    let mut n = 0u64;
    // ---- Babbage: babbage3.tx --------------------------------------------------------------------------------------------------
    {
        let cbor = cbor_to_bytes(&std::fs::read_to_string("/repo/test_data/babbage3.tx").expect("fixture babbage3.tx"));
        let signed: babbage::Tx = babbage_minted_tx_from_cbor(&cbor);
        let mut stripped: babbage::Tx = babbage_minted_tx_from_cbor(&cbor);
        let mut ws = (*stripped.transaction_witness_set).clone();
        ws.vkeywitness = None;
        let ws_bytes = minicbor::to_vec(&ws).unwrap();
        stripped.transaction_witness_set = minicbor::decode(&ws_bytes).unwrap();
        let info = [(String::from("011be1f490912af2fc39f8e3637a2bade2ecbebefe63e8bfef10989cd6f593309a155b0ebb45ff830747e61f98e5b77feaf7529ce9df351382"), babbage::Value::Coin(103324335), None, None)];
        let utxos: UTxOs = mk_utxo_for_babbage_tx(&signed.transaction_body, &info);
        let env = Environment { prot_params: MultiEraProtocolParameters::Babbage(babbage_params()), prot_magic: 764824073, block_slot: 72316896, network_id: 1,
            acnt: Some(AccountState { treasury: 261_254_564_000_000, reserves: 0 }) };
        let r = validate_txs(&[MultiEraTx::from_babbage(&signed)], &env, &utxos, &mut CertState::default());
        if witness_objection(&r) { println!("VIOLATED: the signed Babbage fixture babbage3.tx is rejected by the witness check: {r:?}"); std::process::exit(1); }
        let r = validate_txs(&[MultiEraTx::from_babbage(&stripped)], &env, &utxos, &mut CertState::default());
        if !witness_missing(&r) { println!("VIOLATED: Babbage transaction babbage3.tx with its vkey witnesses stripped (key-locked input) -> {r:?}, expected Err(PostAlonzo(VKWitnessMissing))"); std::process::exit(1); }
        n += 2;
    }
    // ---- Conway: conway5.tx (script from a reference input, key-locked collateral) -----------------------------------------------
    {
        let hex_tx = std::fs::read_to_string("/repo/test_data/conway5.tx").expect("fixture conway5.tx");
        let hex_tx = hex_tx.trim();
        let signed_bytes = hex::decode(hex_tx).unwrap();
        // witness set map `A2 00 <vkey wits> 05 <redeemers>` -> `A1 05 <redeemers>` (body bytes and redeemer bytes untouched)
        let prefix = "A200D90102818258202A60DCFFE8BA15307556DBF8D7DF142CB9EB15D601251D400D523689D575B8385840";
        let Some(start) = hex_tx.to_uppercase().find(prefix) else { eprintln!("conway5.tx: witness set not found"); std::process::exit(2) };
        let end = start + prefix.len() + 128;
        let stripped_bytes = hex::decode(format!("{}A1{}", &hex_tx[..start], &hex_tx[end..])).unwrap();
        for (bytes, is_signed) in [(&signed_bytes, true), (&stripped_bytes, false)] {
            let mtx: Tx = conway_minted_tx_from_cbor(bytes);
            if !is_signed && (mtx.transaction_witness_set.vkeywitness.is_some() || mtx.transaction_body.collateral.is_none()) { eprintln!("conway5.tx surgery failed"); std::process::exit(2); }
            let metx = MultiEraTx::from_conway(&mtx);
            let datum_bytes = cbor_to_bytes("d8799f4568656c6c6fff");
            let datum_option = DatumOption::Data(CborWrap(minicbor::decode(&datum_bytes).unwrap()));
            let datum_option = minicbor::to_vec(datum_option).unwrap();
            let datum_option: KeepRaw<'_, DatumOption> = minicbor::decode(&datum_option).unwrap();
            let mut tx_outs_info: Vec<ConwayTxOutInfoMut> = vec![(String::from("71faae60072c45d121b6e58ae35c624693ee3dad9ea8ed765eb6f76f9f"), Value::Coin(2000000), Some(datum_option), None, Vec::new())];
            let mut utxos: UTxOs = mk_codec_safe_utxo_for_conway_tx(&mtx.transaction_body, &mut tx_outs_info);
            let script = hex::decode("58a701010032323232323225333002323232323253330073370e900118041baa0011323322533300a3370e900018059baa00513232533300f30110021533300c3370e900018069baa00313371e6eb8c040c038dd50039bae3010300e37546020601c6ea800c5858dd7180780098061baa00516300c001300c300d001300937540022c6014601600660120046010004601000260086ea8004526136565734aae7555cf2ab9f5742ae89").unwrap();
            let mut ref_info: Vec<ConwayRefInputInfoMut> = vec![(String::from("71faae60072c45d121b6e58ae35c624693ee3dad9ea8ed765eb6f76f9f"), Value::Coin(1624870), None,
                Some(CborWrap(ScriptRef::PlutusV3Script(PlutusScript::<3>(Bytes::from(script))))), Vec::new())];
            add_codec_safe_ref_input_conway(&mtx.transaction_body, &mut utxos, &mut ref_info);
            let mut collateral_info: Vec<ConwayCollateralInfoMut> = vec![(
                String::from("015c5c318d01f729e205c95eb1b02d623dd10e78ea58f72d0c13f892b2e8904edc699e2f0ce7b72be7cec991df651a222e2ae9244eb5975cba"),
                Value::Coin(49731771), None, None, Vec::new())];
            add_codec_safe_collateral_conway(&mtx.transaction_body, &mut utxos, &mut collateral_info);
            let env = Environment { prot_params: MultiEraProtocolParameters::Conway(conway_params()), prot_magic: 764824073, block_slot: 149807950, network_id: 1,
                acnt: Some(AccountState { treasury: 261_254_564_000_000, reserves: 0 }) };
            let r = validate_txs(std::slice::from_ref(&metx), &env, &utxos, &mut CertState::default());
            if is_signed {
                if witness_objection(&r) { println!("VIOLATED: the signed Conway fixture conway5.tx is rejected by the witness check: {r:?}"); std::process::exit(1); }
            } else if !witness_missing(&r) {
                println!("VIOLATED: Conway transaction conway5.tx with the collateral owner's signature (its only vkey witness) stripped -> {r:?}, expected Err(PostAlonzo(VKWitnessMissing)): a key-locked collateral input is put at stake without its owner's witness");
                std::process::exit(1);
            }
            n += 1;
        }
    }
    println!("checked {n} validations: stripped signatures are reported as VKWitnessMissing, signed fixtures pass the witness check");
}
