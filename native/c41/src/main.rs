//! bounded(every sequence of at most 4 operations over {sign with key A, sign with key B, add A's signature, remove A, remove B} on a freshly
//! built Conway transaction: 781 sequences): after every operation the body bytes inside tx_bytes and the transaction id are unchanged,
//! nothing panics, the witness set holds exactly one witness per key of the signature map and nothing else, and each witness is a valid
//! signature of the transaction id. Exit 1 with the first failing sequence if not.
use pallas_addresses::Address;
use pallas_codec::minicbor;
use pallas_crypto::hash::Hash;
use pallas_crypto::key::ed25519::{PublicKey, SecretKey, Signature};
use pallas_primitives::conway::Tx;
use pallas_primitives::Fragment;
use pallas_traverse::ComputeHash;
use pallas_txbuilder::{BuildConway, BuiltTransaction, Input, Output, StagingTransaction};
use std::panic::{catch_unwind, AssertUnwindSafe};

#[derive(Clone, Copy, Debug)]
enum Op { SignA, SignB, AddA, RemoveA, RemoveB }
const OPS: [Op; 5] = [Op::SignA, Op::SignB, Op::AddA, Op::RemoveA, Op::RemoveB];

fn fail(msg: String) -> ! { println!("VIOLATED: {msg}"); std::process::exit(1) }

fn main() {
    std::panic::set_hook(Box::new(|_| {}));
    let a = SecretKey::from([7u8; 32]);
    let b = SecretKey::from([9u8; 32]);
    let addr = Address::from_bech32("addr1qx2fxv2umyhttkxyxp8x0dlpdt3k6cwng5pxj3jhsydzer3n0d3vllmyqwsx5wktcd8cc3sq835lu7drv2xwl2wywfgse35a3x").unwrap();
    let built: BuiltTransaction = StagingTransaction::new()
        .input(Input::new(Hash::<32>::from([3u8; 32]), 0))
        .output(Output::new(addr, 2_000_000))
        .fee(170_000)
        .build_conway_raw().expect("build");
    let body0 = { let tx = Tx::decode_fragment(&built.tx_bytes.0).expect("decode built tx"); tx.transaction_body.raw_cbor().to_vec() };
    let id0 = built.tx_hash.0;
    let sig_a_of_id = a.sign(id0);
    let mut n = 0u64;
    let mut seqs: Vec<Vec<Op>> = vec![vec![]];
    for len in 1..=4 { let prev: Vec<Vec<Op>> = seqs.iter().filter(|s| s.len() == len - 1).cloned().collect(); for s in prev { for o in OPS { let mut t = s.clone(); t.push(o); seqs.push(t); } } }
    for seq in &seqs {
        let mut tx = built.clone();
        for (k, op) in seq.iter().enumerate() {
            let cur = tx.clone();
            let r = catch_unwind(AssertUnwindSafe(|| match op {
                Op::SignA => cur.sign(&a), Op::SignB => cur.sign(&b),
                Op::AddA => { let s: [u8; 64] = sig_a_of_id.as_ref().try_into().unwrap(); cur.add_signature(a.public_key(), s) }
                Op::RemoveA => cur.remove_signature(a.public_key()), Op::RemoveB => cur.remove_signature(b.public_key()),
            }));
            let prefix = format!("{:?}", &seq[..=k]);
            tx = match r { Err(_) => fail(format!("operations {prefix}: the last one PANICS")), Ok(Err(e)) => fail(format!("operations {prefix}: the last one fails with {e:?}")), Ok(Ok(t)) => t };
            n += 1;
            if tx.tx_hash.0 != id0 { fail(format!("operations {prefix}: the transaction id changed")); }
            let dec = match Tx::decode_fragment(&tx.tx_bytes.0) { Ok(d) => d, Err(e) => fail(format!("operations {prefix}: tx_bytes no longer decode: {e}")) };
            if dec.transaction_body.raw_cbor() != &body0[..] || *dec.transaction_body.compute_hash() != id0 && *pallas_crypto::hash::Hasher::<256>::hash(dec.transaction_body.raw_cbor()) != id0 {
                fail(format!("operations {prefix}: the body bytes changed"));
            }
            let wits: Vec<(Vec<u8>, Vec<u8>)> = dec.transaction_witness_set.vkeywitness.as_ref().map(|w| w.iter().map(|x| (x.vkey.to_vec(), x.signature.to_vec())).collect()).unwrap_or_default();
            let map = tx.signatures.clone().unwrap_or_default();
            let mut keys: Vec<Vec<u8>> = wits.iter().map(|w| w.0.clone()).collect(); keys.sort();
            let mut dedup = keys.clone(); dedup.dedup();
            if dedup.len() != keys.len() { fail(format!("operations {prefix}: the witness set holds {} witnesses for {} distinct keys (more than one witness per public key)", keys.len(), dedup.len())); }
            let mut mkeys: Vec<Vec<u8>> = map.keys().map(|k| k.0.to_vec()).collect(); mkeys.sort();
            if mkeys != keys { fail(format!("operations {prefix}: the witness set has {} witnesses, the signature map lists {} keys", keys.len(), mkeys.len())); }
            for (vk, sg) in &wits {
                let pk = PublicKey::from(<[u8; 32]>::try_from(&vk[..]).unwrap());
                let sg = Signature::from(<[u8; 64]>::try_from(&sg[..]).unwrap());
                if !pk.verify(id0, &sg) { fail(format!("operations {prefix}: a witness is not a valid signature of the transaction id")); }
                if map.iter().find(|(k, _)| k.0[..] == vk[..]).map(|(_, v)| v.0.to_vec()) != Some(sg.as_ref().to_vec()) { fail(format!("operations {prefix}: a witness differs from the signature map's entry for its key")); }
            }
        }
    }
    let _ = minicbor::to_vec(0u8);
    println!("checked {n} signing operations in {} sequences: id and body unchanged, one valid witness per listed key, no panic", seqs.len());
}
