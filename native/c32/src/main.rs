//! bounded(mainnet, testnet, preview, preprod; about 400 slots each: 0..40, every Shelley epoch boundary k in {0..5, 100, 1000} +-3, the
//! Byron/Shelley boundary +-5, 2^31, 2^32 and shelley_known_slot + 2^32 +-3, 2^40 - 1, and 60 pseudo-random slots below 2^40): in the Shelley era the
//! slot-in-epoch is below the epoch size and (epoch, slot-in-epoch) converts back to the slot; in the Byron era likewise for the slots whose
//! conversion is not the open known finding; wall-clock time advances by the era's slot length from a slot to the next and is strictly
//! increasing over the whole grid (the legacy testnet's era boundary, an open known finding, excepted). Exit 1 with the first failing slot if not.
use pallas_traverse::wellknown::GenesisValues;

fn fail(msg: String) -> ! { println!("VIOLATED: {msg}"); std::process::exit(1) }

fn main() {
    let mut n = 0u64;
    for (name, g) in [("mainnet", GenesisValues::mainnet()), ("testnet", GenesisValues::testnet()), ("preview", GenesisValues::preview()), ("preprod", GenesisValues::preprod())] {
        let b = g.shelley_known_slot;
        let elen = g.shelley_epoch_length as u64 / g.shelley_slot_length.max(1) as u64;        // epoch size in slots
        let byron_slots = g.byron_epoch_length as u64 / g.byron_slot_length.max(1) as u64;
        let mut slots: Vec<u64> = (0..40).collect();
        for k in [0u64, 1, 2, 3, 4, 5, 100, 1000] { for d in 0..7u64 { slots.push((b + k * elen + d).saturating_sub(3)); } }
        for d in 0..11u64 { slots.push((b + d).saturating_sub(5)); }
        for base in [1u64 << 31, 1 << 32, b + (1 << 32)] { for d in 0..7u64 { slots.push(base + d - 3); } }
        slots.push((1 << 40) - 2); slots.push((1 << 40) - 1);
        let mut seed = 0x2545f4914f6cdd1du64 ^ g.magic;
        for _ in 0..60 { seed ^= seed << 13; seed ^= seed >> 7; seed ^= seed << 17; slots.push(seed % (1 << 40)); }
        slots.sort(); slots.dedup();
        for &s in &slots {
            let (e, r) = g.absolute_slot_to_relative(s);
            if s >= b {
                if r >= elen { fail(format!("{name} slot {s}: slot-in-epoch {r} is not below the epoch size {elen}")); }
                let back = g.relative_slot_to_absolute(e, r);
                if back != s { fail(format!("{name} slot {s}: (epoch {e}, slot-in-epoch {r}) converts back to {back}")); }
            } else if s % (g.byron_epoch_length as u64) < byron_slots {
                // outside the open known finding C32.abs_to_rel.byron.slot_in_epoch.high_region
                if r >= byron_slots { fail(format!("{name} Byron slot {s}: slot-in-epoch {r} is not below the epoch size {byron_slots}")); }
                let back = g.relative_slot_to_absolute(e, r);
                if back != s { fail(format!("{name} Byron slot {s}: (epoch {e}, slot-in-epoch {r}) converts back to {back}")); }
            }
            // one step of wall-clock time
            if s + 1 != b || name != "testnet" {
                let (w0, w1) = (g.slot_to_wallclock(s), g.slot_to_wallclock(s + 1));
                let step = if s + 1 < b { g.byron_slot_length as u64 } else if s >= b { g.shelley_slot_length as u64 } else { 0 };
                if w1 <= w0 { fail(format!("{name}: wall-clock time does not increase from slot {s} ({w0}) to slot {} ({w1})", s + 1)); }
                if step != 0 && w1 - w0 != step { fail(format!("{name}: wall-clock time advances by {} from slot {s} to the next, the era's slot length is {step}", w1 - w0)); }
            }
            n += 1;
        }
        // strictly increasing over the grid
        for w in slots.windows(2) {
            if name == "testnet" && w[0] < b && w[1] >= b { continue; }      // open known finding C32.testnet.wallclock_continuous
            if g.slot_to_wallclock(w[0]) >= g.slot_to_wallclock(w[1]) { fail(format!("{name}: wall-clock time of slot {} is not below that of slot {}", w[0], w[1])); }
        }
    }
    println!("checked {n} slots of the four well-known networks");
}
