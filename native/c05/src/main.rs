//! bounded(12 native scripts — the six constructors, each in its canonical encoding and in a semantically equal non-canonical one
//! (non-minimal integer heads, indefinite-length arrays) — placed in the witness set of a minimal Conway transaction and in a script
//! reference): the script hash phase-2 validation files the script under (DataLookupTable::from_transaction) and reports to Plutus
//! (ToPlutusData for ScriptRef) is Blake2b-224(0x00 ++ the bytes that appeared on the wire). Exit 1 with the first script if not.
use pallas_codec::minicbor;
use pallas_codec::utils::KeepRaw;
use pallas_crypto::hash::{Hash, Hasher};
use pallas_primitives::conway::{NativeScript, ScriptRef};
use pallas_primitives::PlutusData;
use pallas_traverse::{Era, MultiEraTx, OriginalHash};
use pallas_validate::phase2::script_context::DataLookupTable;
use pallas_validate::phase2::to_plutus_data::ToPlutusData;

fn hex(b: &[u8]) -> String { b.iter().map(|x| format!("{x:02x}")).collect() }

fn main() {
    let kh = [0x11u8; 28];
    let mut pubkey = vec![0x82, 0x00, 0x58, 0x1c]; pubkey.extend_from_slice(&kh);
    let mut pubkey_indef = vec![0x9f, 0x00, 0x58, 0x1c]; pubkey_indef.extend_from_slice(&kh); pubkey_indef.push(0xff);
    let cases: Vec<(&str, Vec<u8>)> = vec![
        ("ScriptPubkey canonical", pubkey.clone()),
        ("ScriptPubkey in an indefinite-length array", pubkey_indef),
        ("ScriptAll [] canonical", vec![0x82, 0x01, 0x80]),
        ("ScriptAll [] with an indefinite-length list", vec![0x82, 0x01, 0x9f, 0xff]),
        ("ScriptAny [InvalidBefore 5] canonical", vec![0x82, 0x02, 0x81, 0x82, 0x04, 0x05]),
        ("ScriptAny [InvalidBefore 5] with a non-minimal tag", vec![0x82, 0x18, 0x02, 0x81, 0x82, 0x04, 0x05]),
        ("ScriptNOfK 1 [] canonical", vec![0x83, 0x03, 0x01, 0x80]),
        ("ScriptNOfK 1 [] with a two-byte n", vec![0x83, 0x03, 0x19, 0x00, 0x01, 0x80]),
        ("InvalidBefore 5 canonical", vec![0x82, 0x04, 0x05]),
        ("InvalidBefore 5 with a one-byte argument", vec![0x82, 0x04, 0x18, 0x05]),
        ("InvalidHereafter 300 canonical", vec![0x82, 0x05, 0x19, 0x01, 0x2c]),
        ("InvalidHereafter 300 with an eight-byte argument", vec![0x82, 0x05, 0x1b, 0, 0, 0, 0, 0, 0, 0x01, 0x2c]),
    ];
    let mut n = 0u64;
    let mut skipped = 0u64;
    for (name, script) in &cases {
        // an encoding the decoder does not accept is outside the property ("decoded from any valid encoding"): skipped, counted below
        let Ok(ns) = minicbor::decode::<KeepRaw<NativeScript>>(script) else { skipped += 1; continue };
        // the identity the ledger assigns: tag 0 ++ wire bytes
        let wire: Hash<28> = Hasher::<224>::hash_tagged(script, 0);
        if ns.original_hash() != wire { println!("VIOLATED: {name} ({}): original_hash {} is not the hash of the wire bytes {}", hex(script), ns.original_hash(), wire); std::process::exit(1); }
        // (1) what a script reference reports to Plutus
        let reported = ScriptRef::NativeScript(ns.clone()).to_plutus_data();
        let expect = PlutusData::BoundedBytes(wire.to_vec().into());
        if reported != expect {
            println!("VIOLATED: {name} ({}): the script reference reports {:?} to Plutus, the script's hash is {}", hex(script), reported, wire);
            std::process::exit(1);
        }
        // (2) where phase 2 files a witness-set script: minimal Conway tx [ {0: [], 1: [], 2: 0}, {1: [script]}, true, null ]
        let mut tx = vec![0x84, 0xa3, 0x00, 0x80, 0x01, 0x80, 0x02, 0x00, 0xa1, 0x01, 0x81];
        tx.extend_from_slice(script);
        tx.extend_from_slice(&[0xf5, 0xf6]);
        let Ok(mtx) = MultiEraTx::decode_for_era(Era::Conway, &tx) else { eprintln!("the minimal transaction around `{name}` does not decode"); std::process::exit(2) };
        let table = DataLookupTable::from_transaction(&mtx, &[]).scripts();
        if !table.contains_key(&wire) {
            println!("VIOLATED: {name} ({}): the phase-2 script table files the witness-set script under {:?}, not under its hash {}", hex(script), table.keys().map(|k| k.to_string()).collect::<Vec<_>>(), wire);
            std::process::exit(1);
        }
        n += 1;
    }
    if n < 8 { eprintln!("only {n} fixtures were accepted by the decoder"); std::process::exit(2); }
    // datums: the general constructor form (tag 102) in its definite and indefinite framing — whatever the decoder accepts, the raw bytes
    // kept for the identity hash must be the whole input, and a wrapper that is not a 2-element array must be rejected
    let datums: Vec<(&str, Vec<u8>, bool)> = vec![
        ("Constr 102 [0, []] definite", vec![0xd8, 0x66, 0x82, 0x00, 0x80], true),
        ("Constr 102 [0, []] with an indefinite-length wrapper", vec![0xd8, 0x66, 0x9f, 0x00, 0x80, 0xff], true),
        ("Constr 102 [7, [1, 2]] with an indefinite-length wrapper and field list", vec![0xd8, 0x66, 0x9f, 0x07, 0x9f, 0x01, 0x02, 0xff, 0xff], true),
        ("Constr 121 [] ", vec![0xd8, 0x79, 0x80], true),
        ("Constr 102 with a 3-element wrapper", vec![0xd8, 0x66, 0x83, 0x00, 0x80, 0x00], false),
        ("Constr 102 with a 1-element wrapper", vec![0xd8, 0x66, 0x81, 0x00], false),
    ];
    for (name, bytes, well_formed) in &datums {
        let r = minicbor::decode::<KeepRaw<PlutusData>>(bytes);
        match (r, well_formed) {
            (Ok(k), true) => {
                let wire: Hash<32> = Hasher::<256>::hash(bytes);
                if k.raw_cbor() != &bytes[..] || k.original_hash() != wire {
                    println!("VIOLATED: datum {name} ({}): the bytes kept for the datum hash are {} — hash {} instead of {}", hex(bytes), hex(k.raw_cbor()), k.original_hash(), wire);
                    std::process::exit(1);
                }
            }
            (Err(_), true) => { /* a stricter decoder is within the property: nothing is reported for this input */ }
            (Ok(k), false) => { println!("VIOLATED: datum {name} ({}) is accepted (as {:?}) although its wrapper is not a 2-element array", hex(bytes), *k); std::process::exit(1); }
            (Err(_), false) => {}
        }
        n += 1;
    }
    println!("checked {n} native scripts and datums ({skipped} encodings not accepted by the decoder): each is identified by the hash of its wire bytes");
}
