//! bounded(every list of at most 3 vkey witnesses over 2 keys x 2 signatures — so lists with the same key under different
//! signatures and exact duplicates are included — and the absent list): mk_alonzo_vk_wits_check_list returns one unchecked
//! (false) entry per witness, in order, dropping none; an absent list yields the caller's error.
//! Exit 1 and print the first failing list if not.
use pallas_codec::utils::Bytes;
use pallas_primitives::alonzo::VKeyWitness;
use pallas_validate::utils::{mk_alonzo_vk_wits_check_list, ValidationError};

fn wit(k: u8, s: u8) -> VKeyWitness { VKeyWitness { vkey: Bytes::from(vec![k; 32]), signature: Bytes::from(vec![s; 64]) } }

fn main() {
    let pool: Vec<VKeyWitness> = vec![wit(1, 1), wit(1, 2), wit(2, 1), wit(2, 2)];
    let mut n = 0u64;
    let absent = mk_alonzo_vk_wits_check_list(&None, ValidationError::TxAndProtParamsDiffer);
    n += 1;
    if absent.is_ok() { println!("VIOLATED: an absent witness list produced a check list"); std::process::exit(1); }
    for len in 0..=3usize {
        let mut idx = vec![0usize; len];
        loop {
            let ws: Vec<VKeyWitness> = idx.iter().map(|&i| pool[i].clone()).collect();
            let r = mk_alonzo_vk_wits_check_list(&Some(ws.clone()), ValidationError::TxAndProtParamsDiffer);
            n += 1;
            let good = match &r { Ok(l) => l.len() == ws.len() && l.iter().zip(ws.iter()).all(|((c, w), x)| !*c && w == x), Err(_) => false };
            if !good {
                println!("VIOLATED: witness list with (key, signature) tags {:?} -> check list of {:?} entries (expected {} unchecked entries in the same order)",
                    idx.iter().map(|&i| (1 + i / 2, 1 + i % 2)).collect::<Vec<_>>(), r.as_ref().map(|l| l.len()).ok(), ws.len());
                std::process::exit(1);
            }
            let mut k = len;
            let mut done = len == 0;
            while k > 0 { k -= 1; idx[k] += 1; if idx[k] < pool.len() { break; } idx[k] = 0; if k == 0 { done = true; } }
            if done { break; }
        }
    }
    println!("checked {n} witness lists: every witness gets its own unchecked entry");
}
