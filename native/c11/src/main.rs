//! bounded(the RFC 8032 section 7.1 test vectors 1, 2, 3 and SHA(abc); 40 seeds x messages of 0, 1, 32, 33, 200 bytes against an independent
//! implementation (ed25519-dalek) for standard keys, and SHA-512-expanded, clamped extended keys; every single-bit tampering of the message,
//! the public key and the signature of one case per seed; all 2^8 x 2^8 combinations of the first and last scalar byte for from_bytes):
//! public keys and signatures equal the reference's, signatures verify, tampered ones are accepted exactly when the reference accepts them,
//! extended keys are taken from bytes exactly when the three low bits of byte 0 are clear, bit 6 of byte 31 set and bit 7 clear.
//! Exit 1 with the first failing case if not.
use ed25519_dalek::{Signer, Verifier};
use pallas_crypto::key::ed25519::{PublicKey, SecretKey, SecretKeyExtended, Signature};
use sha2::{Digest, Sha512};

fn fail(msg: String) -> ! { println!("VIOLATED: {msg}"); std::process::exit(1) }
fn h(s: &str) -> Vec<u8> { hex::decode(s).unwrap() }

fn main() {
    let mut n = 0u64;
    // ---- RFC 8032, 7.1 ---------------------------------------------------------------------------------------------------------------------
    let vectors = [
        ("9d61b19deffd5a60ba844af492ec2cc44449c5697b326919703bac031cae7f60", "d75a980182b10ab7d54bfed3c964073a0ee172f3daa62325af021a68f707511a", "",
         "e5564300c360ac729086e2cc806e828a84877f1eb8e5d974d873e065224901555fb8821590a33bacc61e39701cf9b46bd25bf5f0595bbe24655141438e7a100b"),
        ("4ccd089b28ff96da9db6c346ec114e0f5b8a319f35aba624da8cf6ed4fb8a6fb", "3d4017c3e843895a92b70aa74d1b7ebc9c982ccf2ec4968cc0cd55f12af4660c", "72",
         "92a009a9f0d4cab8720e820b5f642540a2b27b5416503f8fb3762223ebdb69da085ac1e43e15996e458f3613d0f11d8c387b2eaeb4302aeeb00d291612bb0c00"),
        ("c5aa8df43f9f837bedb7442f31dcb7b166d38535076f094b85ce3a2e0b4458f7", "fc51cd8e6218a1a38da47ed00230f0580816ed13ba3303ac5deb911548908025", "af82",
         "6291d657deec24024827e69c3abe01a30ce548a284743a445e3680d7db5ac3ac18ff9b538d16f290ae67f760984dc6594a7c15e9716ed28dc027beceea1ec40a"),
        ("833fe62409237b9d62ec77587520911e9a759cec1d19755b7da901b96dca3d42", "ec172b93ad5e563bf4932c70e1245034c35467ef2efd4d64ebf819683467e2bf",
         "ddaf35a193617abacc417349ae20413112e6fa4e89a97ea20a9eeee64b55d39a2192992a274fc1a836ba3c23a3feebbd454d4423643ce80e2a9ac94fa54ca49f",
         "dc2a4459e7369633a52b1bf277839a00201009a3efbf3ecb69bea2186c26b58909351fc9ac90b3ecfdfbc7c66431e0303dca179c138ac17ad9bef1177331a704"),
    ];
    for (sk, pk, msg, sig) in vectors {
        let key = SecretKey::from(<[u8; 32]>::try_from(h(sk)).unwrap());
        if key.public_key().as_ref() != h(pk).as_slice() { fail(format!("RFC 8032 vector (secret key {sk}): derived public key is {}", hex::encode(key.public_key().as_ref()))); }
        let s = key.sign(h(msg));
        if s.as_ref() != h(sig).as_slice() { fail(format!("RFC 8032 vector (secret key {sk}): signature is {}", hex::encode(s.as_ref()))); }
        if !key.public_key().verify(h(msg), &s) { fail(format!("RFC 8032 vector (secret key {sk}): its own signature does not verify")); }
        n += 1;
    }
    // ---- against an independent implementation ---------------------------------------------------------------------------------------------------
    for seed in 0..40u8 {
        let sk_bytes: [u8; 32] = { let mut b = [0u8; 32]; for (i, x) in b.iter_mut().enumerate() { *x = seed.wrapping_mul(31).wrapping_add(i as u8).rotate_left((i % 7) as u32) ^ 0x5a; } b };
        let key = SecretKey::from(sk_bytes);
        let dalek = ed25519_dalek::SigningKey::from_bytes(&sk_bytes);
        let pk = key.public_key();
        if pk.as_ref() != dalek.verifying_key().as_bytes() { fail(format!("secret key {}: public key differs from the reference's", hex::encode(sk_bytes))); }
        // the extended key of the same secret: SHA-512, clamped
        let mut ext: [u8; 64] = Sha512::digest(sk_bytes).into();
        ext[0] &= 0b1111_1000; ext[31] &= 0b0011_1111; ext[31] |= 0b0100_0000;
        let xkey = SecretKeyExtended::from_bytes(ext).unwrap_or_else(|_| fail(format!("a SHA-512-expanded, clamped key is refused by from_bytes")));
        if xkey.public_key().as_ref() != pk.as_ref() { fail(format!("secret key {}: the extended key derives a different public key", hex::encode(sk_bytes))); }
        for len in [0usize, 1, 32, 33, 200] {
            let msg: Vec<u8> = (0..len).map(|i| (i as u8).wrapping_mul(seed | 1)).collect();
            let s = key.sign(&msg);
            let want = dalek.sign(&msg).to_bytes();
            if s.as_ref() != want.as_slice() { fail(format!("secret key {}, {len}-byte message: signature differs from the reference's", hex::encode(sk_bytes))); }
            let xs = xkey.sign(&msg);
            if xs.as_ref() != want.as_slice() { fail(format!("secret key {}, {len}-byte message: the extended key's signature differs from the reference's", hex::encode(sk_bytes))); }
            if !pk.verify(&msg, &s) { fail(format!("secret key {}, {len}-byte message: the signature does not verify", hex::encode(sk_bytes))); }
            n += 1;
            // tampering: accepted exactly when the reference accepts
            if len == 33 {
                let vk = dalek.verifying_key();
                let agree = |m: &[u8], p: &[u8; 32], sg: &[u8; 64], what: String| {
                    let mine = PublicKey::from(*p).verify(m, &Signature::from(*sg));
                    let theirs = ed25519_dalek::VerifyingKey::from_bytes(p).ok().map_or(false, |k| k.verify(m, &ed25519_dalek::Signature::from_bytes(sg)).is_ok());
                    if mine != theirs { fail(format!("secret key {}: {what}: verify says {mine}, the reference says {theirs}", hex::encode(sk_bytes))); }
                };
                let sb: [u8; 64] = want; let pb: [u8; 32] = *vk.as_bytes();
                for i in 0..msg.len() { for bit in [0, 7] { let mut m = msg.clone(); m[i] ^= 1 << bit; agree(&m, &pb, &sb, format!("message bit {bit} of byte {i} flipped")); n += 1; } }
                for i in 0..32 { for bit in 0..8 { let mut p = pb; p[i] ^= 1 << bit; agree(&msg, &p, &sb, format!("public key bit {bit} of byte {i} flipped")); n += 1; } }
                for i in 0..64 { for bit in 0..8 { let mut s2 = sb; s2[i] ^= 1 << bit; agree(&msg, &pb, &s2, format!("signature bit {bit} of byte {i} flipped")); n += 1; } }
            }
        }
    }
    // ---- extended keys from bytes: exactly the clamped ones -----------------------------------------------------------------------------------------
    for b0 in 0..=255u8 { for b31 in 0..=255u8 {
        let mut k = [0x33u8; 64]; k[0] = b0; k[31] = b31;
        let want = b0 & 0b111 == 0 && b31 & 0b0100_0000 != 0 && b31 & 0b1000_0000 == 0;
        if SecretKeyExtended::from_bytes(k).is_ok() != want { fail(format!("SecretKeyExtended::from_bytes with byte 0 = {b0:#04x}, byte 31 = {b31:#04x} is {}", if want { "refused" } else { "accepted" })); }
        n += 1;
    } }
    println!("checked {n} keys, signatures, verifications and clamping patterns");
}
