//! bounded(every sequence of at most 4 transactions over {V = the Mary fixture mary2.tx, a pool registration that changes the certificate
//! state and is accepted once (a second V no longer preserves value and is rejected); X = the same transaction presented under the
//! wrong era, always rejected}): validate_txs succeeds exactly when applying the transactions one at a time succeeds, and then leaves
//! the same state; when it fails the caller's certificate state is what it was before the call. Second family: every sequence of <= 3
//! over {P = mary3.tx, a stake registration then a delegation to an unregistered pool: rejected AFTER the rule has written; X}.
//! Third family: every sequence of <= 3 over {M = allegra1.tx, a transfer of instantaneous rewards: accepted, writes inst_rewards only; X} with an X in it.
//! Exit 1 with the failing sequence if not.
#[path = "/repo/pallas-validate/tests/common.rs"]
#[allow(dead_code, unused_imports)]
mod common;
use common::*;
use pallas_crypto::hash::Hash;
use pallas_primitives::alonzo::{Nonce, NonceVariant, PoolKeyhash, RationalNumber, StakeCredential, Tx, Value};
use pallas_traverse::{Era, MultiEraTx};
use pallas_validate::{phase1::validate_txs, utils::{AccountState, CertState, Environment, MultiEraProtocolParameters, ShelleyProtParams, UTxOs}};
use std::str::FromStr;

fn env() -> Environment {
    let r1 = || RationalNumber { numerator: 1, denominator: 1 };
    let pparams = ShelleyProtParams {
        system_start: chrono::DateTime::parse_from_rfc3339("2017-09-23T21:44:51Z").unwrap(),
        epoch_length: 432000, slot_length: 1, minfee_b: 155381, minfee_a: 44, max_block_body_size: 65536, max_transaction_size: 4096,
        max_block_header_size: 1100, key_deposit: 2000000, pool_deposit: 500000000, maximum_epoch: 18, desired_number_of_stake_pools: 150,
        pool_pledge_influence: r1(), expansion_rate: r1(), treasury_growth_rate: r1(), decentralization_constant: r1(),
        extra_entropy: Nonce { variant: NonceVariant::NeutralNonce, hash: None }, protocol_version: (0, 2), min_utxo_value: 1000000, min_pool_cost: 340000000,
    };
    Environment { prot_params: MultiEraProtocolParameters::Shelley(pparams), prot_magic: 764824073, block_slot: 5281340, network_id: 1,
        acnt: Some(AccountState { treasury: 261_254_564_000_000, reserves: 0 }) }
}
fn env3() -> Environment {
    let pparams = ShelleyProtParams {
        system_start: chrono::DateTime::parse_from_rfc3339("2017-09-23T21:44:51Z").unwrap(),
        epoch_length: 432000, slot_length: 1, minfee_b: 155381, minfee_a: 44, max_block_body_size: 65536, max_transaction_size: 16384,
        max_block_header_size: 1100, key_deposit: 2_000_000, pool_deposit: 500_000_000, maximum_epoch: 18, desired_number_of_stake_pools: 500,
        pool_pledge_influence: RationalNumber { numerator: 3, denominator: 10 }, expansion_rate: RationalNumber { numerator: 3, denominator: 1000 },
        treasury_growth_rate: RationalNumber { numerator: 2, denominator: 10 }, decentralization_constant: RationalNumber { numerator: 0, denominator: 1 },
        extra_entropy: Nonce { variant: NonceVariant::NeutralNonce, hash: None }, protocol_version: (4, 0), min_utxo_value: 1_000_000, min_pool_cost: 340_000_000,
    };
    Environment { prot_params: MultiEraProtocolParameters::Shelley(pparams), prot_magic: 764824073, block_slot: 29_035_358, network_id: 1,
        acnt: Some(AccountState { treasury: 374_930_989_230_000, reserves: 12_618_536_190_580_000 }) }
}
fn operator() -> PoolKeyhash { Hash::from_str("59EBE72AE96462018FBE04633100F90B3066688D85F00F3BD254707F").unwrap() }
fn owner() -> StakeCredential { StakeCredential::AddrKeyhash(Hash::from_str("FB2B631DB76384F64DD94B47F97FC8C2A206764C17A1DE7DA2F70E83").unwrap()) }
fn fresh_state() -> CertState { let mut s = CertState::default(); s.dstate.rewards.insert(owner(), 0); s }
fn untouched(s: &CertState) -> bool {
    s.pstate.pool_params.is_empty() && s.pstate.fut_pool_params.is_empty() && s.pstate.retiring.is_empty()
        && s.dstate.rewards.len() == 1 && s.dstate.rewards.get(&owner()) == Some(&0) && s.dstate.delegations.is_empty()
}

fn fingerprint(s: &CertState) -> (usize, bool, usize, usize, usize, usize) {
    (s.pstate.pool_params.len(), s.pstate.pool_params.contains_key(&operator()), s.pstate.fut_pool_params.len(), s.pstate.retiring.len(), s.dstate.rewards.len(), s.dstate.delegations.len())
}

fn main() {
    let text = std::fs::read_to_string("/repo/test_data/mary2.tx").expect("fixture mary2.tx");
    let cbor = cbor_to_bytes(&text);
    let mtx: Tx = minted_tx_from_cbor(&cbor);
    let utxos: UTxOs = mk_utxo_for_alonzo_compatible_tx(&mtx.transaction_body, &[(
        String::from("018e8f7a7073b8a95a4c1f1cf412b1042fca4945b89eb11754b3481b29fb2b631db76384f64dd94b47f97fc8c2a206764c17a1de7da2f70e83"),
        Value::Coin(1_507_817_955), None)]);
    let env = env();
    let valid = || MultiEraTx::from_alonzo_compatible(&mtx, Era::Mary);
    let wrong = || MultiEraTx::from_alonzo_compatible(&mtx, Era::Alonzo);       // Alonzo transaction under Shelley parameters: rejected
    // the two building blocks behave as labelled
    { let mut s = fresh_state(); if validate_txs(&[valid()], &env, &utxos, &mut s).is_err() { eprintln!("fixture V is not accepted on this tree"); std::process::exit(2); } }
    { let mut s = fresh_state(); if validate_txs(&[wrong()], &env, &utxos, &mut s).is_ok() { eprintln!("fixture X is not rejected on this tree"); std::process::exit(2); } }
    let mut n = 0u64;
    for len in 0..=4usize {
        for code in 0..(1u32 << len) {
            let shape: Vec<bool> = (0..len).map(|i| code >> i & 1 == 1).collect();      // true = X
            let seq: Vec<MultiEraTx> = shape.iter().map(|x| if *x { wrong() } else { valid() }).collect();
            let mut s = fresh_state();
            let r = validate_txs(&seq, &env, &utxos, &mut s);
            let name: String = shape.iter().map(|x| if *x { 'X' } else { 'V' }).collect();
            n += 1;
            // reference: the LEDGER rule applied one transaction at a time to a private copy (each step is a one-element call)
            let mut reference = Some(fresh_state());
            for tx in &seq {
                if let Some(cur) = reference.as_mut() {
                    if validate_txs(std::slice::from_ref(tx), &env, &utxos, cur).is_err() { reference = None; }
                }
            }
            match (&reference, &r) {
                (Some(expect), Ok(())) => {
                    if fingerprint(expect) != fingerprint(&s) {
                        println!("VIOLATED: sequence [{name}] accepted, but the caller's certificate state {:?} is not the state after applying each transaction in order {:?}", fingerprint(&s), fingerprint(expect));
                        std::process::exit(1);
                    }
                }
                (None, Err(_)) => {
                    if !untouched(&s) {
                        println!("VIOLATED: sequence [{name}] failed, yet the caller's certificate state changed (pools registered: {}, reward accounts: {})", s.pstate.pool_params.len(), s.dstate.rewards.len());
                        std::process::exit(1);
                    }
                }
                (Some(_), Err(e)) => { println!("VIOLATED: sequence [{name}]: every transaction is accepted in turn, the sequence is rejected: {e:?}"); std::process::exit(1); }
                (None, Ok(())) => { println!("VIOLATED: sequence [{name}] contains a transaction the LEDGER rule rejects in its turn, but validate_txs returned Ok"); std::process::exit(1); }
            }
        }
    }
    // second family: P = the Mary fixture mary3.tx (a stake registration followed by a delegation) against a state in which the target pool
    // is NOT registered: the rule applies the registration to its working state and then rejects the delegation — a rejected transaction
    // that has already written. Every sequence over {P, X} must fail and leave the caller's state exactly as it was.
    let text3 = std::fs::read_to_string("/repo/test_data/mary3.tx").expect("fixture mary3.tx");
    let cbor3 = cbor_to_bytes(&text3);
    let mtx3: Tx = minted_tx_from_cbor(&cbor3);
    let utxos3: UTxOs = mk_utxo_for_alonzo_compatible_tx(&mtx3.transaction_body, &[(
        String::from("014faace6b1de3b825da7c7f4308917822049cdedb5868f7623f892d4e39cf0461807b986a6477205e376dac280d7f150eb497025f67c49757"),
        Value::Coin(627_760_000), None)]);
    let env3 = env3();
    let partial = || MultiEraTx::from_alonzo_compatible(&mtx3, Era::Mary);
    let wrong3 = || MultiEraTx::from_alonzo_compatible(&mtx3, Era::Alonzo);
    { let mut s = CertState::default(); if validate_txs(&[partial()], &env3, &utxos3, &mut s).is_ok() { eprintln!("fixture P is not rejected on this tree"); std::process::exit(2); } }
    let empty = |s: &CertState| s.pstate.pool_params.is_empty() && s.dstate.rewards.is_empty() && s.dstate.delegations.is_empty() && s.dstate.ptrs.is_empty();
    for len in 1..=3usize {
        for code in 0..(1u32 << len) {
            let shape: Vec<bool> = (0..len).map(|i| code >> i & 1 == 1).collect();      // true = X
            let seq: Vec<MultiEraTx> = shape.iter().map(|x| if *x { wrong3() } else { partial() }).collect();
            let name: String = shape.iter().map(|x| if *x { 'X' } else { 'P' }).collect();
            let mut s = CertState::default();
            let r = validate_txs(&seq, &env3, &utxos3, &mut s);
            n += 1;
            if r.is_ok() { println!("VIOLATED: sequence [{name}] (P = a registration followed by a delegation to an unregistered pool) accepted"); std::process::exit(1); }
            if !empty(&s) {
                println!("VIOLATED: sequence [{name}] failed, yet the caller's certificate state changed (reward accounts: {}, pointers: {}, delegations: {}) — P's stake registration was committed although its delegation was rejected",
                    s.dstate.rewards.len(), s.dstate.ptrs.len(), s.dstate.delegations.len());
                std::process::exit(1);
            }
        }
    }
    // third family: M = the Allegra fixture allegra1.tx, whose only certificate moves instantaneous rewards out of the treasury — accepted, and it
    // writes dstate.inst_rewards and nothing else; X = the same transaction under the wrong era. Every sequence over {M, X} with an X in it fails
    // and must leave the caller's instantaneous rewards empty.
    let text4 = std::fs::read_to_string("/repo/test_data/allegra1.tx").expect("fixture allegra1.tx");
    let cbor4 = cbor_to_bytes(&text4);
    let mtx4: Tx = minted_tx_from_cbor(&cbor4);
    let utxos4: UTxOs = mk_utxo_for_alonzo_compatible_tx(&mtx4.transaction_body, &[(String::from("61b651c2062463499961b9cd594da399a5ec910fceb5c63f9eb55a224a"), Value::Coin(96_400_000), None)]);
    let mut env4 = crate::env3(); env4.block_slot = 19_282_133;
    let mir = || MultiEraTx::from_alonzo_compatible(&mtx4, Era::Mary);
    let wrong4 = || MultiEraTx::from_alonzo_compatible(&mtx4, Era::Alonzo);
    let writes = { let mut s = CertState::default(); match validate_txs(&[mir()], &env4, &utxos4, &mut s) { Ok(()) => !(s.dstate.inst_rewards.0.is_empty() && s.dstate.inst_rewards.1.is_empty()), Err(_) => false } };
    if !writes { println!("note: the MIR fixture is not accepted with a write to the instantaneous rewards under these parameters — third family skipped"); }
    else {
        for len in 1..=3usize {
            for code in 1..(1u32 << len) {
                let shape: Vec<bool> = (0..len).map(|i| code >> i & 1 == 1).collect();      // true = X
                let seq: Vec<MultiEraTx> = shape.iter().map(|x| if *x { wrong4() } else { mir() }).collect();
                let name: String = shape.iter().map(|x| if *x { 'X' } else { 'M' }).collect();
                let mut s = CertState::default();
                let r = validate_txs(&seq, &env4, &utxos4, &mut s);
                n += 1;
                if r.is_ok() { println!("VIOLATED: sequence [{name}] (M = a transfer of instantaneous rewards, X = a rejected transaction) accepted"); std::process::exit(1); }
                if !(s.dstate.inst_rewards.0.is_empty() && s.dstate.inst_rewards.1.is_empty()) || !empty(&s) {
                    println!("VIOLATED: sequence [{name}] failed, yet the caller's certificate state changed: {} reserve and {} treasury entries of instantaneous rewards were committed although the sequence was rejected",
                        s.dstate.inst_rewards.0.len(), s.dstate.inst_rewards.1.len());
                    std::process::exit(1);
                }
            }
        }
    }
    println!("checked {n} transaction sequences: failure leaves the certificate state unchanged, success commits the registrations");
}
