//! bounded(every block fixture under /repo/test_data — all eras — as it is, and for the post-Alonzo ones also with the LAST transaction index
//! added to the invalid list): the era is the one the wrapper declares, txs().len() == tx_count() == the number of bodies, and the i-th
//! traversed transaction has the i-th body (same id), the i-th witness set (same bytes), the auxiliary data stored under key i (or none), and is
//! marked invalid exactly when i is listed. Exit 1 with the first failing (fixture, index) if not.
use pallas_codec::minicbor;
use pallas_traverse::{Era, MultiEraBlock, OriginalHash};

fn fail(msg: String) -> ! { println!("VIOLATED: {msg}"); std::process::exit(1) }

macro_rules! check_era { ($name:expr, $blk:expr, $inner:expr, $variant:ident, $n:ident) => {{
    let txs = $blk.txs();
    if txs.len() != $inner.transaction_bodies.len() || $blk.tx_count() != txs.len() { fail(format!("{}: {} bodies, tx_count() = {}, txs() yields {}", $name, $inner.transaction_bodies.len(), $blk.tx_count(), txs.len())); }
    for (i, tx) in txs.iter().enumerate() {
        if tx.hash() != $inner.transaction_bodies[i].original_hash() { fail(format!("{} tx #{i}: the traversed transaction does not carry body #{i}", $name)); }
        let listed = $inner.invalid_transactions.as_ref().map(|l| l.contains(&(i as u32))).unwrap_or(false);
        if tx.is_valid() == listed { fail(format!("{} tx #{i}: is_valid() = {} although the index is {} among the invalid transactions", $name, tx.is_valid(), if listed { "listed" } else { "not listed" })); }
        let t = tx.$variant().expect("era accessor");
        if t.transaction_witness_set.raw_cbor() != $inner.transaction_witness_sets[i].raw_cbor() { fail(format!("{} tx #{i}: witness set is not witness set #{i}", $name)); }
        let aux_expected = $inner.auxiliary_data_set.get(&(i as u32)).map(|a| a.raw_cbor().to_vec());
        let aux_got: Option<Vec<u8>> = Option::from(t.auxiliary_data.clone()).map(|a: pallas_codec::utils::KeepRaw<_>| a.raw_cbor().to_vec());
        if aux_got != aux_expected { fail(format!("{} tx #{i}: auxiliary data is not the entry stored under key {i}", $name)); }
        $n += 1;
    }
}}; }

/// invalid-transaction lists to try on a block of `k` transactions: the last one alone, and lists that are NOT in ascending order or repeat an index
fn invalid_lists(k: usize) -> Vec<Vec<u32>> {
    let mut v: Vec<Vec<u32>> = vec![];
    if k >= 1 { v.push(vec![(k - 1) as u32]); v.push(vec![0, 0]); }
    if k >= 2 { v.push(vec![(k - 1) as u32, 0]); v.push(vec![1, 0]); }
    if k >= 3 { v.push(vec![0, 2, 1]); v.push(vec![2, 0]); }
    if k >= 5 { v.push(vec![3, 1]); v.push(vec![4, 3, 2, 1, 0]); }
    v
}
fn main() {
    let dir = std::path::Path::new("/repo/test_data");
    let mut names: Vec<String> = std::fs::read_dir(dir).expect("test_data").filter_map(|e| e.ok()).map(|e| e.file_name().to_string_lossy().to_string()).filter(|n| n.ends_with(".block")).collect();
    names.sort();
    let mut n = 0u64; let mut blocks = 0u64;
    for name in names {
        let Ok(bytes) = hex::decode(std::fs::read_to_string(dir.join(&name)).unwrap().trim()) else { continue };
        let Ok(blk) = MultiEraBlock::decode(&bytes) else { continue };
        blocks += 1;
        // the wrapper's era tag: [era, block]
        let declared: u16 = { let mut d = minicbor::Decoder::new(&bytes); d.array().ok(); d.u16().unwrap_or(u16::MAX) };
        let expect = match declared { 0 | 1 => Some(Era::Byron), 2 => Some(Era::Shelley), 3 => Some(Era::Allegra), 4 => Some(Era::Mary), 5 => Some(Era::Alonzo), 6 => Some(Era::Babbage), 7 => Some(Era::Conway), _ => None };
        if let Some(e) = expect { if blk.era() != e { fail(format!("{name}: the wrapper declares era tag {declared}, era() is {:?}", blk.era())); } }
        match &blk {
            MultiEraBlock::AlonzoCompatible(b, era) => { check_era!(name, blk, b, as_alonzo, n);
                if *era == Era::Alonzo { for l in invalid_lists(b.transaction_bodies.len()) { let mut b2 = (**b).clone(); b2.invalid_transactions = Some(l.clone()); let blk2 = MultiEraBlock::AlonzoCompatible(Box::new(b2.clone()), Era::Alonzo); check_era!(format!("{name} (transactions {l:?} listed invalid)"), blk2, b2, as_alonzo, n); } }
            }
            MultiEraBlock::Babbage(b) => {
                check_era!(name, blk, b, as_babbage, n);
                for l in invalid_lists(b.transaction_bodies.len()) { let mut b2 = (**b).clone(); b2.invalid_transactions = Some(l.clone()); let blk2 = MultiEraBlock::Babbage(Box::new(b2.clone())); check_era!(format!("{name} (transactions {l:?} listed invalid)"), blk2, b2, as_babbage, n); }
            }
            MultiEraBlock::Conway(b) => {
                check_era!(name, blk, b, as_conway, n);
                for l in invalid_lists(b.transaction_bodies.len()) { let mut b2 = (**b).clone(); b2.invalid_transactions = Some(l.clone()); let blk2 = MultiEraBlock::Conway(Box::new(b2.clone())); check_era!(format!("{name} (transactions {l:?} listed invalid)"), blk2, b2, as_conway, n); }
            }
            MultiEraBlock::Byron(b) => { if blk.txs().len() != b.body.tx_payload.len() || blk.tx_count() != blk.txs().len() { fail(format!("{name}: Byron transaction count mismatch")); } n += blk.txs().len() as u64; }
            MultiEraBlock::EpochBoundary(_) => { if !blk.txs().is_empty() || blk.tx_count() != 0 { fail(format!("{name}: an epoch-boundary block yields transactions")); } }
            #[allow(unreachable_patterns)] _ => {}
        }
    }
    if blocks < 10 { eprintln!("only {blocks} block fixtures decoded"); std::process::exit(2); }
    println!("checked {n} traversed transactions in {blocks} blocks: each carries its own body, witness set, auxiliary data and validity");
}
