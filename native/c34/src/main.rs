//! bounded(values over ada in {0, 7, 2^63, 2^64-1} and 3 asset keys (two names under one policy, one under another) with quantities in
//! {absent, 1, 5, 2^62, 2^63-1, 2^63, 2^64-5, 2^64-1} (Alonzo values also 0); mints over the same keys with quantities in {absent, +-1, +-5,
//! i64::MAX, i64::MIN}): whenever add_values / conway_add_values / add_minted_value / conway_add_minted_non_zero return Ok, every amount of
//! the result is the exact integer sum; whenever values_are_equal / conway_values_are_equal / lovelace_diff_or_fail accept, the amounts
//! are equal in exact integers (and the difference is the ada difference). A panic (debug-build overflow check) is not an acceptance and is
//! only counted. Exit 1 with the first failing operands if not.
#[path = "/repo/pallas-validate/tests/common.rs"]
#[allow(dead_code, unused_imports)]
mod common;
use pallas_codec::utils::Bytes;
use pallas_crypto::hash::Hash;
use pallas_primitives::alonzo::{Multiasset, Value};
use pallas_primitives::conway::{Multiasset as CMultiasset, Value as CValue};
use pallas_primitives::{NonZeroInt, PositiveCoin};
use pallas_validate::utils::*;
use std::collections::BTreeMap;

fn fail(msg: String) -> ! { println!("VIOLATED: {msg}"); std::process::exit(1) }
/// one report per function (the first failing operands), then the run goes on so that every failing function is named
static SEEN: std::sync::Mutex<Vec<String>> = std::sync::Mutex::new(Vec::new());
fn report(func: &str, msg: String) { let mut s = SEEN.lock().unwrap(); if !s.iter().any(|f| f == func) { s.push(func.to_string()); println!("VIOLATED: {msg}"); } }
type Key = (u8, u8);
const KEYS: [Key; 3] = [(1, 1), (1, 2), (2, 1)];
fn policy(p: u8) -> Hash<28> { Hash::from([p; 28]) }
fn name(n: u8) -> Bytes { Bytes::from(vec![b'a' + n]) }
type Amts = BTreeMap<Option<Key>, i128>;

fn mk_ma<T: Clone>(q: &[Option<T>; 3]) -> BTreeMap<Hash<28>, BTreeMap<Bytes, T>> {
    let mut m: BTreeMap<Hash<28>, BTreeMap<Bytes, T>> = BTreeMap::new();
    for (i, k) in KEYS.iter().enumerate() { if let Some(v) = &q[i] { m.entry(policy(k.0)).or_default().insert(name(k.1), v.clone()); } }
    m
}
fn amts_of<T: Copy>(ada: Option<u64>, m: Option<&BTreeMap<Hash<28>, BTreeMap<Bytes, T>>>, f: impl Fn(T) -> i128) -> Amts {
    let mut a = Amts::new();
    a.insert(None, ada.unwrap_or(0) as i128);
    for k in KEYS { a.insert(Some(k), 0); }
    if let Some(m) = m { for (p, inner) in m { for (n, v) in inner {
        let key = KEYS.iter().find(|k| policy(k.0) == *p && name(k.1) == *n).copied().unwrap_or_else(|| fail(format!("result carries an asset key that no operand has")));
        *a.get_mut(&Some(key)).unwrap() += f(*v);
    } } }
    a
}
fn amts_v(v: &Value) -> Amts { match v { Value::Coin(c) => amts_of::<u64>(Some(*c), None, |x| x as i128), Value::Multiasset(c, m) => amts_of(Some(*c), Some(m), |x: u64| x as i128) } }
fn amts_c(v: &CValue) -> Amts { match v { CValue::Coin(c) => amts_of::<u64>(Some(*c), None, |x| x as i128), CValue::Multiasset(c, m) => amts_of(Some(*c), Some(m), |x: PositiveCoin| u64::from(x) as i128) } }
fn sum(a: &Amts, b: &Amts) -> Amts { a.iter().map(|(k, v)| (*k, v + b[k])).collect() }
fn show(a: &Amts) -> String { a.iter().map(|(k, v)| match k { None => format!("ada {v}"), Some((p, n)) => format!("p{p}.{} {v}", (b'a' + n) as char) }).collect::<Vec<_>>().join(", ") }

fn quiet<R>(f: impl FnOnce() -> R + std::panic::UnwindSafe) -> Option<R> { std::panic::catch_unwind(f).ok() }

/// a hand-built, correctly witnessed Byron transaction spending `n_pk` public-key outputs and `n_redeem` redeem (AVVM) outputs of
/// `each` lovelace, with a single output of `out_amount`; returns (accepted, size as the fee rule measures it)
fn byron_built(n_pk: usize, n_redeem: usize, each: u64, out_amount: u64) -> Option<(bool, usize)> {
    use pallas_addresses::byron::{AddrType, AddressPayload, ByronAddress, SpendingData};
    use pallas_codec::{minicbor::{self, bytes::ByteVec}, utils::{CborWrap, EmptyMap, MaybeIndefArray, TagWrap}};
    use pallas_crypto::key::ed25519::SecretKey;
    use pallas_primitives::byron::{Address, Twit, Tx, TxIn, TxOut, TxPayload, Witnesses};
    use pallas_traverse::{MultiEraInput, MultiEraOutput, MultiEraTx, OriginalHash};
    use pallas_validate::utils::{ByronProtParams, CertState, Environment, MultiEraProtocolParameters, UTxOs};
    const MAGIC: u32 = 764824073;
    let prim = |payload: AddressPayload| -> Address { let a = ByronAddress::from_decoded(payload); Address { payload: TagWrap(ByteVec::from(a.payload.0.to_vec())), crc: a.crc } };
    let signed = |tag: u64, h: &Hash<32>| -> Vec<u8> { let mut e = minicbor::Encoder::new(Vec::new()); e.encode(tag).unwrap(); e.encode(MAGIC).unwrap(); e.encode(h).unwrap(); e.into_writer() };
    let mut ins: Vec<(TxIn, Address, SecretKey, bool)> = Vec::new();
    for i in 0..n_pk {
        let key = SecretKey::from([0x11u8 + i as u8; 32]);
        let mut ext: Vec<u8> = key.public_key().as_ref().to_vec(); ext.extend_from_slice(&[0u8; 32]);
        let addr = prim(AddressPayload::new(AddrType::PubKey, SpendingData::PubKey(ByteVec::from(ext)), vec![].into()));
        ins.push((TxIn::Variant0(CborWrap((Hash::<32>::from([0xa0 + i as u8; 32]), 0))), addr, key, false));
    }
    for i in 0..n_redeem {
        let key = SecretKey::from([0x51u8 + i as u8; 32]);
        let addr = prim(AddressPayload::new_redeem(key.public_key(), None));
        ins.push((TxIn::Variant0(CborWrap((Hash::<32>::from([0xb0 + i as u8; 32]), 0))), addr, key, true));
    }
    let tx = Tx { inputs: MaybeIndefArray::Indef(ins.iter().map(|i| i.0.clone()).collect()), outputs: MaybeIndefArray::Indef(vec![TxOut { address: ins[0].1.clone(), amount: out_amount }]), attributes: EmptyMap };
    let tx_buf: Vec<u8> = minicbor::to_vec(&tx).unwrap();
    let tx_hash: Hash<32> = { let keep: pallas_codec::utils::KeepRaw<Tx> = minicbor::decode(&tx_buf).unwrap(); keep.original_hash() };
    let wits: Witnesses = MaybeIndefArray::Def(ins.iter().map(|(_, _, key, redeem)| {
        if *redeem { Twit::RedeemWitness(CborWrap((ByteVec::from(key.public_key().as_ref().to_vec()), ByteVec::from(key.sign(signed(2, &tx_hash)).as_ref().to_vec())))) }
        else { let mut ext: Vec<u8> = key.public_key().as_ref().to_vec(); ext.extend_from_slice(&[0u8; 32]);
               Twit::PkWitness(CborWrap((ByteVec::from(ext), ByteVec::from(key.sign(signed(1, &tx_hash)).as_ref().to_vec())))) }
    }).collect());
    let wits_buf: Vec<u8> = minicbor::to_vec(&wits).unwrap();
    let mut payload_buf: Vec<u8> = vec![0x82]; payload_buf.extend_from_slice(&tx_buf); payload_buf.extend_from_slice(&wits_buf);
    let mtxp: TxPayload = minicbor::decode(&payload_buf).unwrap();
    let size = mtxp.transaction.raw_cbor().len() + mtxp.witness.raw_cbor().len();
    let mut utxos: UTxOs = UTxOs::new();
    for (txin, addr, _, _) in &ins {
        utxos.insert(MultiEraInput::Byron(Box::new(std::borrow::Cow::Owned(txin.clone()))), MultiEraOutput::Byron(Box::new(std::borrow::Cow::Owned(TxOut { address: addr.clone(), amount: each }))));
    }
    let pparams = ByronProtParams { block_version: (1, 0, 0), start_time: 1506203091, script_version: 0, slot_duration: 20000, max_block_size: 2000000,
        max_header_size: 2000000, max_tx_size: 4096, max_proposal_size: 700, mpc_thd: 20000000000000, heavy_del_thd: 300000000000,
        update_vote_thd: 1000000000000, update_proposal_thd: 100000000000000, update_implicit: 10000,
        soft_fork_rule: (900000000000000, 600000000000000, 50000000000000), summand: 155381, multiplier: 44, unlock_stake_epoch: 18446744073709551615 };
    let env = Environment { prot_params: MultiEraProtocolParameters::Byron(pparams), prot_magic: MAGIC, block_slot: 6341, network_id: 1, acnt: None };
    let metx = MultiEraTx::from_byron(&mtxp);
    let mut cs = CertState::default();
    quiet(std::panic::AssertUnwindSafe(|| pallas_validate::phase1::validate_txs(&[metx], &env, &utxos, &mut cs).is_ok())).map(|ok| (ok, size))
}

/// mainnet shelley1.tx (no certificates, withdrawals or mint) under the Mary rules, its body edited by `edit`, signed again with a key of our
/// own that also owns the spent output (worth `spent`), so that every other phase-1 rule holds. Returns the verdict and the exact balance
/// (spent outputs as a SET + mint - outputs - fee) per asset.
fn mary_built(spent: &Value, edit: impl Fn(&mut pallas_primitives::alonzo::TransactionBody)) -> Option<(bool, Amts)> {
    use pallas_codec::minicbor::{decode::{Decode, Decoder}, encode};
    use pallas_crypto::{hash::Hasher, key::ed25519::SecretKey};
    use pallas_primitives::alonzo::{Nonce, NonceVariant, RationalNumber, TransactionBody, Tx, VKeyWitness, WitnessSet};
    use pallas_traverse::{Era, MultiEraTx, OriginalHash};
    use pallas_validate::utils::{AccountState, CertState, Environment, MultiEraProtocolParameters, ShelleyProtParams, UTxOs};
    let cbor = common::cbor_to_bytes(&std::fs::read_to_string("/repo/test_data/shelley1.tx").expect("fixture shelley1.tx"));
    let mut mtx: Tx = common::minted_tx_from_cbor(&cbor);
    let sk: SecretKey = SecretKey::from([7u8; 32]);
    let pk = sk.public_key();
    let mut owner_addr: Vec<u8> = vec![0x61];
    owner_addr.extend_from_slice(Hasher::<224>::hash(pk.as_ref()).as_ref());
    let mut tx_body: TransactionBody = (*mtx.transaction_body).clone();
    edit(&mut tx_body);
    // the exact balance
    let mut bal = Amts::new(); bal.insert(None, 0); for k in KEYS { bal.insert(Some(k), 0); }
    let mut seen: Vec<(Vec<u8>, u64)> = Vec::new();
    for i in tx_body.inputs.iter() { let r = (i.transaction_id.to_vec(), i.index); if !seen.contains(&r) { seen.push(r); bal = sum(&bal, &amts_v(spent)); } }
    if let Some(m) = &tx_body.mint { bal = sum(&bal, &amts_of(None, Some(m), |x: i64| x as i128)); }
    for o in tx_body.outputs.iter() { let a = amts_v(&o.amount); bal = bal.iter().map(|(k, v)| (*k, v - a[k])).collect(); }
    *bal.get_mut(&None).unwrap() -= tx_body.fee as i128;
    let mut body_buf: Vec<u8> = Vec::new();
    let _ = encode(tx_body, &mut body_buf);
    mtx.transaction_body = Decode::decode(&mut Decoder::new(body_buf.as_slice()), &mut ()).unwrap();
    let body_hash = mtx.transaction_body.original_hash();
    let signature = sk.sign(body_hash.as_ref());
    let mut tx_wits: WitnessSet = mtx.transaction_witness_set.unwrap().clone();
    tx_wits.vkeywitness = Some(vec![VKeyWitness { vkey: Bytes::from(pk.as_ref().to_vec()), signature: Bytes::from(signature.as_ref().to_vec()) }]);
    let mut wits_buf: Vec<u8> = Vec::new();
    let _ = encode(tx_wits, &mut wits_buf);
    mtx.transaction_witness_set = Decode::decode(&mut Decoder::new(wits_buf.as_slice()), &mut ()).unwrap();
    let utxos: UTxOs = common::mk_utxo_for_alonzo_compatible_tx(&mtx.transaction_body, &[(hex::encode(&owner_addr), spent.clone(), None)]);
    let one = || RationalNumber { numerator: 1, denominator: 1 };
    let env = Environment { prot_params: MultiEraProtocolParameters::Shelley(ShelleyProtParams {
            system_start: chrono::DateTime::parse_from_rfc3339("2017-09-23T21:44:51Z").unwrap(), epoch_length: 432000, slot_length: 1, minfee_b: 155381, minfee_a: 44,
            max_block_body_size: 65536, max_transaction_size: 4096, max_block_header_size: 1100, key_deposit: 2000000, pool_deposit: 500000000, maximum_epoch: 18,
            desired_number_of_stake_pools: 150, pool_pledge_influence: one(), expansion_rate: one(), treasury_growth_rate: one(), decentralization_constant: one(),
            extra_entropy: Nonce { variant: NonceVariant::NeutralNonce, hash: None }, protocol_version: (0, 2), min_utxo_value: 1000000, min_pool_cost: 340000000 }),
        prot_magic: 764824073, block_slot: 5281340, network_id: 1, acnt: Some(AccountState { treasury: 261_254_564_000_000, reserves: 0 }) };
    let metx: MultiEraTx = MultiEraTx::from_alonzo_compatible(&mtx, Era::Mary);
    let mut cs = CertState::default();
    quiet(std::panic::AssertUnwindSafe(|| pallas_validate::phase1::validate_txs(&[metx], &env, &utxos, &mut cs).is_ok())).map(|ok| (ok, bal))
}

fn main() {
    std::panic::set_hook(Box::new(|_| {}));
    let err = pallas_validate::utils::ValidationError::Alonzo(pallas_validate::utils::AlonzoError::NegativeValue);
    let big: [Option<u64>; 8] = [None, Some(1), Some(5), Some(1 << 62), Some((1 << 63) - 1), Some(1 << 63), Some(u64::MAX - 4), Some(u64::MAX)];
    let adas = [0u64, 7, 1 << 63, u64::MAX];
    // ---- the sample of values ---------------------------------------------------------------------------------------------------------
    let mut vals: Vec<Value> = Vec::new();
    let mut cvals: Vec<CValue> = Vec::new();
    let mut idx = 0usize;
    for a in big { for b in big { for c in big {
        let ada = adas[idx % 4]; idx += 1;
        if a.is_none() && b.is_none() && c.is_none() { for ada in adas { vals.push(Value::Coin(ada)); cvals.push(CValue::Coin(ada)); } }
        vals.push(Value::Multiasset(ada, mk_ma(&[a, b, c])));
        let pc = |x: Option<u64>| x.map(|v| PositiveCoin::try_from(v).unwrap());
        cvals.push(CValue::Multiasset(ada, mk_ma(&[pc(a), pc(b), pc(c)])));
    } } }
    vals.push(Value::Multiasset(3, mk_ma(&[Some(0u64), Some(5), None])));      // an explicit zero entry (Alonzo values may carry one)
    vals.push(Value::Multiasset(3, mk_ma(&[None, Some(5u64), None])));
    vals.push(Value::Multiasset(3, mk_ma(&[Some(0u64), None, None])));
    let (mut n, mut panics) = (0u64, 0u64);
    // ---- addition and comparison: a coarse stride keeps the pair count near 10^5 -------------------------------------------------------
    let thorough = std::env::args().nth(1).as_deref() == Some("thorough");
    let stride = if thorough { 1 } else { 7 };
    for (i, a) in vals.iter().enumerate() { for b in vals.iter().skip(i % stride).step_by(stride) {
        let (ea, eb) = (amts_v(a), amts_v(b));
        match quiet(|| add_values(a, b, &err)) { None => panics += 1, Some(Err(_)) => {}, Some(Ok(r)) => {
            if amts_v(&r) != sum(&ea, &eb) { report("add_values", format!("add_values([{}], [{}]) = [{}]: not the exact sum", show(&ea), show(&eb), show(&amts_v(&r)))); } } }
        match quiet(|| values_are_equal(a, b)) { None => panics += 1, Some(false) => {}, Some(true) => {
            if ea != eb { report("values_are_equal", format!("values_are_equal([{}], [{}]) accepts values that differ", show(&ea), show(&eb))); } } }
        match quiet(|| lovelace_diff_or_fail(a, b, &err)) { None => panics += 1, Some(Err(_)) => {}, Some(Ok(d)) => {
            let mut want = eb.clone(); *want.get_mut(&None).unwrap() += d as i128;
            if ea != want { report("lovelace_diff_or_fail", format!("lovelace_diff_or_fail([{}], [{}]) = {d}: the values do not differ by exactly that much ada", show(&ea), show(&eb))); } } }
        n += 1;
    } }
    for (i, a) in cvals.iter().enumerate() { for b in cvals.iter().skip(i % stride).step_by(stride) {
        let (ea, eb) = (amts_c(a), amts_c(b));
        match quiet(|| conway_add_values(a, b, &err)) { None => panics += 1, Some(Err(_)) => {}, Some(Ok(r)) => {
            if amts_c(&r) != sum(&ea, &eb) { report("conway_add_values", format!("conway_add_values([{}], [{}]) = [{}]: not the exact sum", show(&ea), show(&eb), show(&amts_c(&r)))); } } }
        match quiet(|| conway_values_are_equal(a, b)) { None => panics += 1, Some(false) => {}, Some(true) => {
            if ea != eb { report("conway_values_are_equal", format!("conway_values_are_equal([{}], [{}]) accepts values that differ", show(&ea), show(&eb))); } } }
        match quiet(|| conway_lovelace_diff_or_fail(a, b, &err)) { None => panics += 1, Some(Err(_)) => {}, Some(Ok(d)) => {
            let mut want = eb.clone(); *want.get_mut(&None).unwrap() += d as i128;
            if ea != want { report("conway_lovelace_diff_or_fail", format!("conway_lovelace_diff_or_fail([{}], [{}]) = {d}: the values do not differ by exactly that much ada", show(&ea), show(&eb))); } } }
        n += 1;
    } }
    // ---- minting ----------------------------------------------------------------------------------------------------------------------------
    let mq: [Option<i64>; 7] = [None, Some(1), Some(-1), Some(5), Some(-5), Some(i64::MAX), Some(i64::MIN)];
    for a in mq { for b in mq { for c in mq {
        let mint: Multiasset<i64> = mk_ma(&[a, b, c]);
        let em = amts_of(None, Some(&mint), |x: i64| x as i128);
        for v in vals.iter().step_by(if thorough { 1 } else { 3 }) {
            let ev = amts_v(v);
            match quiet(|| add_minted_value(v, &mint, &err)) { None => panics += 1, Some(Err(_)) => {}, Some(Ok(r)) => {
                if amts_v(&r) != sum(&ev, &em) { report("add_minted_value", format!("add_minted_value([{}], mint [{}]) = [{}]: not the exact sum", show(&ev), show(&em), show(&amts_v(&r)))); } } }
            n += 1;
        }
        let nz = |x: Option<i64>| x.map(|v| NonZeroInt::try_from(v).unwrap());
        let cmint: CMultiasset<NonZeroInt> = mk_ma(&[nz(a), nz(b), nz(c)]);
        for v in cvals.iter().step_by(if thorough { 1 } else { 3 }) {
            let ev = amts_c(v);
            match quiet(|| conway_add_minted_non_zero(v, &cmint, &err)) { None => panics += 1, Some(Err(_)) => {}, Some(Ok(r)) => {
                if amts_c(&r) != sum(&ev, &em) { report("conway_add_minted_non_zero", format!("conway_add_minted_non_zero([{}], mint [{}]) = [{}]: not the exact sum", show(&ev), show(&em), show(&amts_c(&r)))); } } }
            n += 1;
        }
    } } }
    // ---- Byron: the balance / fee rule on the real fixtures byron1.tx (ordinary input: a fee is due) and byron2.tx (redeem input: no fee, but
    //      outputs may not exceed inputs), with the spent output's amount swept around the balance point ---------------------------------------
    {
        use pallas_validate::utils::{ByronProtParams, CertState, Environment, MultiEraProtocolParameters, UTxOs};
        let mk_env = || { let pparams = ByronProtParams { block_version: (1, 0, 0), start_time: 1506203091, script_version: 0, slot_duration: 20000, max_block_size: 2000000,
            max_header_size: 2000000, max_tx_size: 4096, max_proposal_size: 700, mpc_thd: 20000000000000, heavy_del_thd: 300000000000,
            update_vote_thd: 1000000000000, update_proposal_thd: 100000000000000, update_implicit: 10000,
            soft_fork_rule: (900000000000000, 600000000000000, 50000000000000), summand: 155381, multiplier: 44, unlock_stake_epoch: 18446744073709551615 };
        Environment { prot_params: MultiEraProtocolParameters::Byron(pparams), prot_magic: 764824073, block_slot: 6341, network_id: 1, acnt: None } };
        for (fixture, addr, fee_due) in [("byron1.tx", "83581cff66e7549ee0706abe5ce63ba325f792f2c1145d918baf563db2b457a101581e581cca3e553c9c63c5927480e7434620200eb3a162ef0b6cf6f671ba925100", true),
                                         ("byron2.tx", "83581CDC7E4DD6A44886816DEC9A4B2021056A8FCAF500C09E316028F2985FA002", false)] {
            let cbor = common::cbor_to_bytes(&std::fs::read_to_string(format!("/repo/test_data/{fixture}")).expect("byron fixture"));
            let mtxp = common::minted_tx_payload_from_cbor(&cbor);
            let metx = pallas_traverse::MultiEraTx::from_byron(&mtxp);
            let outs: i128 = mtxp.transaction.outputs.iter().map(|o| o.amount as i128).sum();
            let size = mtxp.transaction.raw_cbor().len() + mtxp.witness.raw_cbor().len();
            let min_fee = if fee_due { 155381i128 + 44 * size as i128 } else { 0 };
            for spent in [1u64, (outs - 1) as u64, outs as u64, (outs + min_fee - 1) as u64, (outs + min_fee) as u64, 19999000000, u64::MAX] {
                let utxos: UTxOs = common::mk_utxo_for_byron_tx(&mtxp.transaction, &[(String::from(addr), spent)]);
                let mut cs = CertState::default();
                let tx = metx.clone();
                let env = mk_env();
                match quiet(std::panic::AssertUnwindSafe(move || pallas_validate::phase1::validate_txs(&[tx], &env, &utxos, &mut cs).is_ok())) {
                    None => panics += 1,
                    Some(true) => if (spent as i128) < outs + min_fee { report("byron check_fees", format!("{fixture} spending an output of {spent} lovelace is accepted: its outputs total {outs} and the fee due is at least {min_fee}")); },
                    Some(false) => if spent == 19999000000 { fail(format!("{fixture} is rejected with its genuine UTxO: the harness is not exercising the fee rule")); },
                }
                n += 1;
            }
        }
    }
    // ---- Byron, hand-built and correctly witnessed transactions: 0..2 public-key inputs and 0..2 redeem inputs of 1 000 000 lovelace each, one
    //      output swept around the balance point: accepted only if the inputs cover the output, plus the minimum fee unless EVERY input is a redeem one
    for n_pk in 0..3usize { for n_redeem in 0..3usize {
        if n_pk + n_redeem == 0 { continue; }
        let total = 1_000_000i128 * (n_pk + n_redeem) as i128;
        let Some((_, size)) = byron_built(n_pk, n_redeem, 1_000_000, 1) else { fail(format!("hand-built Byron transaction ({n_pk} public-key, {n_redeem} redeem inputs) panics")) };
        let min_fee = if n_pk > 0 { 155381i128 + 44 * size as i128 } else { 0 };
        let mut accepted_some = false;
        for out in [1i128, total - min_fee - 1, total - min_fee, total - min_fee + 1, total - 1, total, total + 1, 2 * total] {
            if out <= 0 { continue; }
            match byron_built(n_pk, n_redeem, 1_000_000, out as u64) {
                None => panics += 1,
                Some((true, _)) => { accepted_some = true; if total < out + min_fee { report("byron check_fees (built)", format!("a Byron transaction spending {n_pk} public-key and {n_redeem} redeem outputs of 1000000 lovelace with one output of {out} is accepted: the fee due is at least {min_fee}")); } }
                Some((false, _)) => {}
            }
            n += 1;
        }
        if !accepted_some { fail(format!("no hand-built Byron transaction with {n_pk} public-key and {n_redeem} redeem inputs is accepted: the construction is not exercising the fee rule")); }
    } }
    // ---- Mary, end to end: shelley1.tx re-signed, with edits of its outputs / mint / inputs; accepted only with an exactly zero balance ---------
    {
        let ada_in = 2332267427205u64;
        let spent_plain = Value::Coin(ada_in);
        let spent_tok = Value::Multiasset(ada_in, mk_ma(&[Some(1u64), None, None]));
        type Edit = Box<dyn Fn(&mut pallas_primitives::alonzo::TransactionBody)>;
        let lov = |v: &Value| match v { Value::Coin(c) => *c, Value::Multiasset(c, _) => *c };
        let cases: Vec<(&str, Value, Edit, bool)> = vec![
            ("unchanged", spent_plain.clone(), Box::new(|_b| {}), true),
            ("first output one lovelace up", spent_plain.clone(), Box::new(move |b| { let c = lov(&b.outputs[0].amount); b.outputs[0].amount = Value::Coin(c + 1); }), false),
            ("first output one lovelace down", spent_plain.clone(), Box::new(move |b| { let c = lov(&b.outputs[0].amount); b.outputs[0].amount = Value::Coin(c - 1); }), false),
            ("fee one lovelace up, output one down", spent_plain.clone(), Box::new(move |b| { let c = lov(&b.outputs[0].amount); b.outputs[0].amount = Value::Coin(c - 1); b.fee += 1; }), true),
            ("token passed through", spent_tok.clone(), Box::new(move |b| { let c = lov(&b.outputs[0].amount); b.outputs[0].amount = Value::Multiasset(c - 10_000, mk_ma(&[Some(1u64), None, None])); b.fee += 10_000; }), true),
            ("token dropped", spent_tok.clone(), Box::new(move |b| { b.fee += 0; }), false),
            ("second asset of the same policy appears in an output", spent_tok.clone(), Box::new(move |b| { let c = lov(&b.outputs[0].amount); b.outputs[0].amount = Value::Multiasset(c - 10_000, mk_ma(&[Some(1u64), Some(1_000_000_000_000_000_000u64), None])); b.fee += 10_000; }), false),
            ("asset of another policy appears in an output", spent_tok.clone(), Box::new(move |b| { let c = lov(&b.outputs[0].amount); b.outputs[0].amount = Value::Multiasset(c - 10_000, mk_ma(&[Some(1u64), None, Some(5u64)])); b.fee += 10_000; }), false),
            ("token doubled in the output", spent_tok.clone(), Box::new(move |b| { let c = lov(&b.outputs[0].amount); b.outputs[0].amount = Value::Multiasset(c - 10_000, mk_ma(&[Some(2u64), None, None])); b.fee += 10_000; }), false),
            ("the only input listed twice, first output raised by its value", spent_plain.clone(), Box::new(move |b| { let i = b.inputs[0].clone(); b.inputs.push(i); let c = lov(&b.outputs[0].amount); b.outputs[0].amount = Value::Coin(c + ada_in - 10_000); b.fee += 10_000; }), false),
        ];
        for (what, spent, edit, must_accept) in cases {
            match mary_built(&spent, edit) {
                None => panics += 1,
                Some((ok, bal)) => {
                    let balanced = bal.values().all(|v| *v == 0);
                    if ok && !balanced { report("mary check_preservation_of_value", format!("shelley1.tx under the Mary rules, {what}: accepted with the balance [{}] (spent outputs as a set + mint - outputs - fee)", show(&bal))); }
                    if must_accept && !ok { fail(format!("shelley1.tx under the Mary rules, {what}: rejected although it balances — the harness is not exercising the rule")); }
                    if must_accept && !balanced { fail(format!("harness error: case {what} does not balance")); }
                }
            }
            n += 1;
        }
    }
    if !SEEN.lock().unwrap().is_empty() { std::process::exit(1); }
    println!("checked {n} value operations ({panics} of them panicked instead of answering: debug-build overflow checks and unwraps, not acceptances)");
}
