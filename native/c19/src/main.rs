//! bounded(96 address payloads: the four address types (PubKey, Script, Redeem, Other(7)) x 3 spending keys x attribute lists {none, a network
//! tag, a derivation path, both in key order, both NOT in key order, three unordered, a bootstrap-era distribution, a single-key distribution}; for each, every single-bit corruption of the whole
//! encoded address — payload, tag, CRC bytes): an address built from a payload decodes back to it and round-trips through raw bytes, hex,
//! base58 and the generic Address (from_bytes / from_hex / from_str); a corrupted encoding never yields an address (other than by an honest
//! re-encoding of the same address). Exit 1 with the first failing payload / bit if not.
use pallas_addresses::byron::{AddrAttrProperty, AddrDistr, AddrType, AddressPayload, ByronAddress, SpendingData};
use pallas_addresses::Address;
use pallas_codec::minicbor::bytes::ByteVec;
use std::str::FromStr;

fn fail(msg: String) -> ! { println!("VIOLATED: {msg}"); std::process::exit(1) }

fn main() {
    let mut n = 0u64;
    let keys: [Vec<u8>; 3] = [vec![0x11; 64], (0..64u8).collect(), vec![0xff; 32]];
    let attr_sets: Vec<Vec<AddrAttrProperty>> = vec![
        vec![],
        vec![AddrAttrProperty::NetworkTag(ByteVec::from(vec![0x1a, 0x41, 0x70, 0x8b, 0x2d]))],
        vec![AddrAttrProperty::DerivationPath(ByteVec::from(vec![0x58, 0x1c, 1, 2, 3, 4, 5, 6, 7, 8, 9, 10, 11, 12, 13, 14, 15, 16, 17, 18, 19, 20, 21, 22, 23, 24, 25, 26, 27, 28]))],
        vec![AddrAttrProperty::DerivationPath(ByteVec::from(vec![0x41, 0x00])), AddrAttrProperty::NetworkTag(ByteVec::from(vec![0x00]))],
        vec![AddrAttrProperty::NetworkTag(ByteVec::from(vec![0x1a, 0x41, 0x70, 0xcb, 0x17])), AddrAttrProperty::DerivationPath(ByteVec::from(vec![1, 2, 3, 4]))],      // NOT in key order
        vec![AddrAttrProperty::NetworkTag(ByteVec::from(vec![0x00])), AddrAttrProperty::AddrDistr(AddrDistr::BootstrapEraDistribution), AddrAttrProperty::DerivationPath(ByteVec::from(vec![0x40]))],
        vec![AddrAttrProperty::AddrDistr(AddrDistr::BootstrapEraDistribution)],
        vec![AddrAttrProperty::AddrDistr(AddrDistr::SingleKeyDistribution(pallas_crypto::hash::Hash::from([0x5a; 28])))],
    ];
    for (ti, at) in [AddrType::PubKey, AddrType::Script, AddrType::Redeem, AddrType::Other(7)].into_iter().enumerate() {
        for key in &keys { for attrs in &attr_sets {
            let sd = match ti % 3 { 0 => SpendingData::PubKey(ByteVec::from(key.clone())), 1 => SpendingData::Script(ByteVec::from(key.clone())), _ => SpendingData::Redeem(ByteVec::from(key.clone())) };
            let payload = AddressPayload::new(at.clone(), sd, attrs.clone().into());
            let what = format!("{at:?} address, {}-byte key, attributes {attrs:?}", key.len());
            let addr = ByronAddress::from_decoded(payload.clone());
            // the payload comes back
            match addr.decode() { Ok(p) if p == payload => {}, other => fail(format!("{what}: the built address decodes to {other:?}")) }
            // raw bytes, hex, base58, and the generic Address entry points
            let bytes = addr.to_vec();
            match ByronAddress::from_bytes(&bytes) { Ok(a) if a == addr => {}, other => fail(format!("{what}: from_bytes(to_vec) gives {other:?}")) }
            match ByronAddress::from_base58(&addr.to_base58()) { Ok(a) if a == addr => {}, other => fail(format!("{what}: from_base58(to_base58) gives {other:?}")) }
            if hex::decode(addr.to_hex()).ok().as_deref() != Some(bytes.as_slice()) { fail(format!("{what}: to_hex is not the hex of to_vec")); }
            match Address::from_bytes(&bytes) { Ok(Address::Byron(a)) if a == addr => {}, other => fail(format!("{what}: Address::from_bytes gives {other:?}")) }
            match Address::from_hex(&addr.to_hex()) { Ok(Address::Byron(a)) if a == addr => {}, other => fail(format!("{what}: Address::from_hex gives {other:?}")) }
            match Address::from_str(&addr.to_base58()) { Ok(Address::Byron(a)) if a == addr => {}, other => fail(format!("{what}: Address::from_str(base58) gives {other:?}")) }
            if Address::Byron(addr.clone()).to_vec() != bytes { fail(format!("{what}: Address::to_vec differs from ByronAddress::to_vec")); }
            n += 1;
            // every single-bit corruption: rejected, or (a bit of a CBOR head that re-spells the same item) the very same address
            for i in 0..bytes.len() { for bit in 0..8 {
                let mut c = bytes.clone(); c[i] ^= 1 << bit;
                let verdicts = [ByronAddress::from_bytes(&c).ok(), ByronAddress::from_base58(&base58(&c)).ok(), match Address::from_bytes(&c) { Ok(Address::Byron(a)) => Some(a), _ => None }];
                for v in verdicts.iter().flatten() {
                    if v.payload.0 != addr.payload.0 || v.crc != addr.crc { fail(format!("{what}: bit {bit} of byte {i} flipped and the bytes still parse as an address (payload {} bytes, crc {:08x})", v.payload.0.len(), v.crc)); }
                }
                n += 1;
            } }
        } }
    }
    println!("checked {n} addresses and corruptions");
}
/// base58 (Bitcoin alphabet), written here so that the corrupted bytes reach from_base58 without the library's encoder
fn base58(b: &[u8]) -> String {
    const A: &[u8] = b"123456789ABCDEFGHJKLMNPQRSTUVWXYZabcdefghijkmnopqrstuvwxyz";
    let zeros = b.iter().take_while(|x| **x == 0).count();
    let mut digits: Vec<u8> = vec![];
    for &byte in b { let mut carry = byte as u32; for d in digits.iter_mut() { carry += (*d as u32) << 8; *d = (carry % 58) as u8; carry /= 58; } while carry > 0 { digits.push((carry % 58) as u8); carry /= 58; } }
    let mut s: String = std::iter::repeat('1').take(zeros).collect();
    s.extend(digits.iter().rev().map(|d| A[*d as usize] as char));
    s
}
