//! bounded(SEQS (default 150; `thorough`: 2000) pseudo-random sequences of 300 steps for EACH of the initiator and the responder behaviour, over 3 peers; a step is an
//! interface event — Connected / Disconnected / Error / Idle / Sent(message) / Recv(1..3 messages) — or a command (initiator: IncludePeer, Housekeeping, StartSync,
//! ContinueSync, RequestBlocks, BanPeer, DemotePeer; responder: Housekeeping, BanPeer, DisconnectPeer, ProvideIntersection, ProvideRollback, ProvideBlocks,
//! ProvidePeers); the messages are whatever DECODES, per protocol, from about 14 000 small CBOR arrays [tag, atoms..] — well-formed messages of every protocol in
//! every order, whether the protocol state allows them or not; after every step the behaviour's output stream is drained; every second sequence is played against a
//! co-operative interface that confirms what the behaviour sends, accepts its handshake proposal and answers a peer-sharing request with 50 addresses more than
//! asked for, so that the states behind the handshake are reached): no step may panic. Exit 1 with the
//! seed, the step and the event if one does.
use futures::StreamExt;
use pallas_network2::behavior::responder::{ResponderBehavior, ResponderCommand};
use pallas_network2::behavior::{AnyMessage, InitiatorBehavior, InitiatorCommand};
use pallas_network2::protocol as proto;
use pallas_network2::{Behavior, InterfaceError, InterfaceEvent, PeerId};

fn pid(n: u64) -> PeerId { PeerId { host: format!("10.0.0.{n}"), port: 3000 + n as u16 } }
struct Rng(u64);
impl Rng { fn next(&mut self) -> u64 { self.0 ^= self.0 << 13; self.0 ^= self.0 >> 7; self.0 ^= self.0 << 17; self.0 } fn below(&mut self, n: u64) -> u64 { self.next() % n } }

/// small CBOR arrays [tag, atoms..]
fn candidates() -> Vec<Vec<u8>> {
    let atoms: Vec<Vec<u8>> = vec![vec![0x00], vec![0x01], vec![0x18, 0x2a], vec![0x1a, 0xff, 0xff, 0xff, 0xff], vec![0x40], { let mut v = vec![0x58, 0x20]; v.extend([7u8; 32]); v }, vec![0x80],
        { let mut v = vec![0x82, 0x05, 0x58, 0x20]; v.extend([9u8; 32]); v }, vec![0xa0], vec![0xf5], vec![0x81, 0x80], { let mut v = vec![0x82, 0x82, 0x05, 0x58, 0x20]; v.extend([9u8; 32]); v.push(0x03); v },
        vec![0x82, 0x00, 0x40], vec![0xd8, 0x18, 0x41, 0x00], vec![0x81, 0x82, 0x00, 0x40], vec![0x61, 0x61]];
    let mut out = Vec::new();
    for tag in 0u8..=12 {
        out.push(vec![0x81, tag]);
        for a in &atoms { let mut v = vec![0x82, tag]; v.extend(a); out.push(v);
            for b in &atoms { let mut v = vec![0x83, tag]; v.extend(a); v.extend(b); out.push(v);
                for c in atoms.iter().step_by(2) { let mut v = vec![0x84, tag]; v.extend(a); v.extend(b); v.extend(c); out.push(v); } } }
    }
    out
}
fn pool() -> Vec<AnyMessage> {
    let mut msgs: Vec<AnyMessage> = Vec::new();
    let mut seen = std::collections::HashSet::new();
    let mut add = |m: AnyMessage, msgs: &mut Vec<AnyMessage>| { let k: String = format!("{m:?}").chars().take(300).collect(); if seen.insert(k) { msgs.push(m); } };
    for c in candidates() {
        if let Ok(m) = pallas_codec::minicbor::decode::<proto::handshake::Message<proto::handshake::n2n::VersionData>>(&c) { add(AnyMessage::Handshake(m), &mut msgs); }
        if let Ok(m) = pallas_codec::minicbor::decode::<proto::keepalive::Message>(&c) { add(AnyMessage::KeepAlive(m), &mut msgs); }
        if let Ok(m) = pallas_codec::minicbor::decode::<proto::chainsync::Message<proto::chainsync::HeaderContent>>(&c) { add(AnyMessage::ChainSync(m), &mut msgs); }
        if let Ok(m) = pallas_codec::minicbor::decode::<proto::peersharing::Message>(&c) { add(AnyMessage::PeerSharing(m), &mut msgs); }
        if let Ok(m) = pallas_codec::minicbor::decode::<proto::blockfetch::Message>(&c) { add(AnyMessage::BlockFetch(m), &mut msgs); }
        if let Ok(m) = pallas_codec::minicbor::decode::<proto::txsubmission::Message>(&c) { add(AnyMessage::TxSubmission(m), &mut msgs); }
        if let Ok(m) = pallas_codec::minicbor::decode::<proto::leiosnotify::Message>(&c) { add(AnyMessage::LeiosNotify(m), &mut msgs); }
        if let Ok(m) = pallas_codec::minicbor::decode::<proto::leiosfetch::Message>(&c) { add(AnyMessage::LeiosFetch(m), &mut msgs); }
    }
    msgs
}
fn point(r: &mut Rng) -> proto::Point { if r.below(3) == 0 { proto::Point::Origin } else { proto::Point::Specific(r.below(1000), vec![r.below(256) as u8; 32]) } }
fn io_event(r: &mut Rng, pool: &[AnyMessage]) -> InterfaceEvent<AnyMessage> {
    let p = pid(1 + r.below(3));
    match r.below(10) {
        0 | 1 => InterfaceEvent::Connected(p), 2 => InterfaceEvent::Disconnected(p), 3 => InterfaceEvent::Error(p, InterfaceError::Other("boom".into())), 4 => InterfaceEvent::Idle,
        5 => InterfaceEvent::Sent(p, pool[r.below(pool.len() as u64) as usize].clone()),
        _ => { let n = 1 + r.below(3); InterfaceEvent::Recv(p, (0..n).map(|_| pool[r.below(pool.len() as u64) as usize].clone()).collect()) }
    }
}
fn drain<B: Behavior<Message = AnyMessage>>(b: &mut B, sent: &mut Vec<(PeerId, AnyMessage)>) {
    let waker = futures::task::noop_waker(); let mut cx = std::task::Context::from_waker(&waker);
    for _ in 0..10_000 { match b.poll_next_unpin(&mut cx) {
        std::task::Poll::Ready(Some(pallas_network2::BehaviorOutput::InterfaceCommand(pallas_network2::InterfaceCommand::Send(p, m)))) => { if sent.len() < 64 { sent.push((p, m)); } }
        std::task::Poll::Ready(Some(_)) => {}, _ => break } }
}
/// what a co-operative interface and peer would do next with what the behaviour has sent: confirm the send, accept a handshake proposal, answer a
/// peer-sharing request with MORE addresses than asked for
fn scripted(sent: &mut Vec<(PeerId, AnyMessage)>, follow: &mut Vec<InterfaceEvent<AnyMessage>>, r: &mut Rng, accept: &AnyMessage) -> Option<InterfaceEvent<AnyMessage>> {
    if r.below(3) == 0 { return None; }
    if !follow.is_empty() { return Some(follow.remove(0)); }
    if sent.is_empty() { return None; }
    let (p, m) = sent.remove(0);
    // the send is confirmed; what the peer answers comes next
    match &m {
        AnyMessage::Handshake(proto::handshake::Message::Propose(_)) => follow.push(InterfaceEvent::Recv(p.clone(), vec![accept.clone()])),
        AnyMessage::PeerSharing(proto::peersharing::Message::ShareRequest(n)) => {
            let peers = (0..(*n as u32 + 50)).map(|i| proto::peersharing::PeerAddress::V4(std::net::Ipv4Addr::from(0x0a00_0000 + i), 3001)).collect();
            follow.push(InterfaceEvent::Recv(p.clone(), vec![AnyMessage::PeerSharing(proto::peersharing::Message::SharePeers(peers))])) }
        _ => {}
    }
    Some(InterfaceEvent::Sent(p, m))
}
enum Step { I(InitiatorCommand), R(ResponderCommand), Io(InterfaceEvent<AnyMessage>) }
fn describe(s: &Step) -> String { match s { Step::I(c) => format!("{c:?}"), Step::R(c) => format!("{c:?}"), Step::Io(e) => format!("{e:?}") }.chars().take(500).collect() }
fn gen_initiator(r: &mut Rng, pool: &[AnyMessage]) -> Step {
    if r.below(4) == 0 {
        let p = pid(1 + r.below(3));
        let cmd = match r.below(8) { 0 | 1 => InitiatorCommand::IncludePeer(p), 2 => InitiatorCommand::Housekeeping, 3 => InitiatorCommand::StartSync((0..r.below(3)).map(|_| point(r)).collect()),
            4 => InitiatorCommand::ContinueSync(p), 5 => InitiatorCommand::RequestBlocks((point(r), point(r))), 6 => InitiatorCommand::BanPeer(p), _ => InitiatorCommand::DemotePeer(p) };
        Step::I(cmd)
    } else { Step::Io(io_event(r, pool)) }
}
fn gen_responder(r: &mut Rng, pool: &[AnyMessage]) -> Step {
    if r.below(4) == 0 {
        let p = pid(1 + r.below(3));
        let tip = proto::chainsync::Tip(point(r), r.below(1000));
        let cmd = match r.below(7) { 0 => ResponderCommand::Housekeeping, 1 => ResponderCommand::BanPeer(p), 2 => ResponderCommand::DisconnectPeer(p), 3 => ResponderCommand::ProvideIntersection(p, point(r), tip),
            4 => ResponderCommand::ProvideRollback(p, point(r), tip), 5 => ResponderCommand::ProvideBlocks(p, (0..r.below(3)).map(|i| vec![i as u8; 4]).collect()), _ => ResponderCommand::ProvidePeers(p, vec![]) };
        Step::R(cmd)
    } else { Step::Io(io_event(r, pool)) }
}

#[tokio::main(flavor = "current_thread")]
async fn main() {
    let seqs: u64 = if std::env::args().any(|a| a == "thorough") { 2000 } else { 150 };
    let pool = pool();
    // [1, 13, [764824073, false, 1, false]]: the peer accepts version 13 and offers peer sharing
    let accept = AnyMessage::Handshake(pallas_codec::minicbor::decode(&[0x83, 0x01, 0x0d, 0x84, 0x1a, 0x2d, 0x96, 0x4a, 0x09, 0xf4, 0x01, 0xf4]).expect("handshake accept decodes"));
    let kinds: std::collections::HashSet<_> = pool.iter().map(std::mem::discriminant).collect();
    if pool.len() < 40 || kinds.len() < 8 { println!("VIOLATED: the message pool has {} messages of {} protocols — generation lost its footing", pool.len(), kinds.len()); std::process::exit(1); }
    let last = std::sync::Arc::new(std::sync::Mutex::new(String::new()));
    let l2 = last.clone();
    std::panic::set_hook(Box::new(move |info| { *l2.lock().unwrap() = format!("{info}").replace('\n', " "); }));
    let mut n = 0u64;
    for seed in 1..=seqs {
        for which in 0..2 {
            let mut r = Rng(seed.wrapping_mul(0x9e3779b97f4a7c15) ^ which);
            let mut ib = InitiatorBehavior::default(); let mut rb = ResponderBehavior::default();
            let mut sent: Vec<(PeerId, AnyMessage)> = Vec::new(); let mut follow: Vec<InterfaceEvent<AnyMessage>> = Vec::new();
            for step in 0..300 {
                // half of the sequences are played against a co-operative interface (sends confirmed, handshakes accepted), so that the deeper states are reached
                let st = match if seed % 2 == 0 { scripted(&mut sent, &mut follow, &mut r, &accept) } else { sent.clear(); None } { Some(e) => Step::Io(e),
                    None => if which == 0 { gen_initiator(&mut r, &pool) } else { gen_responder(&mut r, &pool) } };
                let what = describe(&st);
                let res = std::panic::catch_unwind(std::panic::AssertUnwindSafe(|| {
                    match st { Step::I(c) => { ib.execute(c); drain(&mut ib, &mut sent); } Step::R(c) => { rb.execute(c); drain(&mut rb, &mut sent); }
                        Step::Io(e) => if which == 0 { ib.handle_io(e); drain(&mut ib, &mut sent); } else { rb.handle_io(e); drain(&mut rb, &mut sent); } } }));
                n += 1;
                if res.is_err() {
                    println!("VIOLATED: {} behaviour, seed {seed}, step {step}: PANICKED ({}) on {what}", if which == 0 { "initiator" } else { "responder" }, last.lock().unwrap());
                    std::process::exit(1);
                }
            }
        }
    }
    println!("checked {n} steps: {} sequences of 300 events and commands for each behaviour, messages drawn from {} decoded messages of {} protocols", seqs, pool.len(), kinds.len());
}
