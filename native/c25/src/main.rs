//! bounded(every pair of version tables over the versions {7, 9, 10, 13} — 16 x 16 subsets — with, per pair, the peer's data equal to the
//! responder's, and differing in the network magic on the lowest / the highest common version: up to 3 x 256 handshakes): the real
//! handshake::Server::handshake, driven by the real Client over a loopback socket, accepts exactly the highest version offered by both
//! sides when the data agree, refuses naming that version when they do not, and answers a disjoint proposal with VersionMismatch listing
//! exactly the responder's versions. Exit 1 with the first failing pair if not.
use pallas_network::miniprotocols::handshake::{self, n2n::VersionData, Confirmation, RefuseReason, VersionTable};
use pallas_network::multiplexer::{Bearer, Plexer};
use std::collections::HashMap;
use std::net::{Ipv4Addr, SocketAddrV4};
use tokio::net::TcpListener;

const VERSIONS: [u64; 4] = [7, 9, 10, 13];
const MAGIC: u64 = 764824073;

async fn pair() -> (Plexer, Plexer) {
    let listener = TcpListener::bind(SocketAddrV4::new(Ipv4Addr::LOCALHOST, 0)).await.unwrap();
    let addr = listener.local_addr().unwrap();
    let acc = tokio::spawn(async move { Bearer::accept_tcp(&listener).await.unwrap().0 });
    let active = Bearer::connect_tcp(addr).await.unwrap();
    let passive = acc.await.unwrap();
    (Plexer::new(active), Plexer::new(passive))
}
fn table(mask: u32, odd_magic_on: Option<u64>) -> VersionTable<VersionData> {
    let mut values = HashMap::new();
    for (i, v) in VERSIONS.iter().enumerate() {
        if mask >> i & 1 == 1 { values.insert(*v, VersionData::new(if odd_magic_on == Some(*v) { MAGIC + 1 } else { MAGIC }, false, None, None)); }
    }
    VersionTable { values }
}

#[tokio::main(flavor = "multi_thread", worker_threads = 2)]
async fn main() {
    let mut n = 0u64;
    for ours in 0u32..16 { for theirs in 0u32..16 {
        let common: Vec<u64> = VERSIONS.iter().enumerate().filter(|(i, _)| ours >> i & 1 == 1 && theirs >> i & 1 == 1).map(|(_, v)| *v).collect();
        let mut variants: Vec<Option<u64>> = vec![None];
        if let (Some(lo), Some(hi)) = (common.first(), common.last()) { variants.push(Some(*hi)); if lo != hi { variants.push(Some(*lo)); } }
        for odd in variants {
            let (mut a, mut p) = pair().await;
            let cch = a.subscribe_client(0);
            let sch = p.subscribe_server(0);
            let _ra = a.spawn();
            let _rp = p.spawn();
            let mut client = handshake::N2NClient::new(cch);
            let mut server = handshake::N2NServer::new(sch);
            let proposal = table(theirs, odd);
            let cl = tokio::spawn(async move { client.handshake(proposal).await });
            let res = server.handshake(table(ours, None)).await;
            let conf = cl.await.unwrap();
            n += 1;
            let describe = format!("responder offers {:?}, peer proposes {:?}{}", VERSIONS.iter().enumerate().filter(|(i, _)| ours >> i & 1 == 1).map(|(_, v)| *v).collect::<Vec<_>>(),
                VERSIONS.iter().enumerate().filter(|(i, _)| theirs >> i & 1 == 1).map(|(_, v)| *v).collect::<Vec<_>>(),
                match odd { Some(v) => format!(" with a different network magic on version {v}"), None => String::new() });
            let highest = common.last().copied();
            let fail = |what: String| -> ! { println!("VIOLATED: {describe}: {what}"); std::process::exit(1) };
            match (highest, odd) {
                (None, _) => {
                    if !matches!(res, Ok(None)) { fail(format!("disjoint version sets, the responder returned {:?}", res.as_ref().map(|x| x.as_ref().map(|y| y.0)).map_err(|e| e.to_string()))); }
                    match conf {
                        Ok(Confirmation::Rejected(RefuseReason::VersionMismatch(mut list))) => {
                            list.sort();
                            let mut mine: Vec<u64> = VERSIONS.iter().enumerate().filter(|(i, _)| ours >> i & 1 == 1).map(|(_, v)| *v).collect(); mine.sort();
                            if list != mine { fail(format!("the version-mismatch refusal lists {list:?}, the responder's versions are {mine:?}")); }
                        }
                        other => fail(format!("expected a version-mismatch refusal, the peer received {:?}", other.map_err(|e| e.to_string()))),
                    }
                }
                (Some(hi), odd) if odd != Some(hi) => {
                    // the highest common version carries agreeing data: it must be the one accepted
                    match (&res, &conf) {
                        (Ok(Some((v, d))), Ok(Confirmation::Accepted(v2, d2))) if *v == hi && *v2 == hi && d.network_magic == MAGIC && d2.network_magic == MAGIC => {}
                        _ => fail(format!("expected version {hi} to be accepted; responder result {:?}, peer received {:?}", res.as_ref().map(|x| x.as_ref().map(|y| y.0)).map_err(|e| e.to_string()), conf.map_err(|e| e.to_string()))),
                    }
                }
                (Some(hi), _) => {
                    // the highest common version carries different magics: refusal naming it, never a lower version accepted
                    match (&res, &conf) {
                        (Ok(None), Ok(Confirmation::Rejected(RefuseReason::Refused(v, _)))) if *v == hi => {}
                        _ => fail(format!("expected a refusal naming version {hi}; responder result {:?}, peer received {:?}", res.as_ref().map(|x| x.as_ref().map(|y| y.0)).map_err(|e| e.to_string()), conf.map_err(|e| e.to_string()))),
                    }
                }
            }
        }
    } }

    // ---- pallas-network2: the responder behaviour, driven through its public entry point with the same pairs of tables ---------------------------
    {
        use pallas_network2::behavior::responder::{handshake::{HandshakeResponder, HandshakeResponderConfig}, ResponderBehavior, ResponderEvent, ResponderState};
        use pallas_network2::behavior::AnyMessage;
        use pallas_network2::protocol::handshake as hp;
        use pallas_network2::{BehaviorOutput, InterfaceCommand, PeerId};
        let table2 = |mask: u32, odd_magic_on: Option<u64>| -> hp::VersionTable<hp::n2n::VersionData> {
            let mut values = HashMap::new();
            for (i, v) in VERSIONS.iter().enumerate() { if mask >> i & 1 == 1 { values.insert(*v, hp::n2n::VersionData::new(if odd_magic_on == Some(*v) { MAGIC + 1 } else { MAGIC }, false, Some(1), Some(false))); } }
            hp::VersionTable { values }
        };
        for ours in 0u32..16 { for theirs in 0u32..16 {
            let common: Vec<u64> = VERSIONS.iter().enumerate().filter(|(i, _)| ours >> i & 1 == 1 && theirs >> i & 1 == 1).map(|(_, v)| *v).collect();
            let mut variants: Vec<Option<u64>> = vec![None];
            if let (Some(lo), Some(hi)) = (common.first(), common.last()) { variants.push(Some(*hi)); if lo != hi { variants.push(Some(*lo)); } }
            for odd in variants {
                let mut b = ResponderBehavior::default();
                b.handshake = HandshakeResponder::new(HandshakeResponderConfig { supported_version: table2(ours, None) });
                let pid = PeerId { host: "127.0.0.1".into(), port: 3001 };
                b.peers.insert(pid.clone(), ResponderState::new());
                b.on_inbound_msg(&pid, &AnyMessage::Handshake(hp::Message::Propose(table2(theirs, odd))));
                let mut sent: Vec<hp::Message<hp::n2n::VersionData>> = vec![];
                let mut initialized: Vec<u64> = vec![];
                loop {
                    let next = tokio::time::timeout(std::time::Duration::from_millis(200), b.outbound.poll_next()).await;
                    match next { Ok(Some(BehaviorOutput::InterfaceCommand(InterfaceCommand::Send(_, AnyMessage::Handshake(m))))) => sent.push(m),
                                 Ok(Some(BehaviorOutput::ExternalEvent(ResponderEvent::PeerInitialized(_, (v, _))))) => initialized.push(v),
                                 Ok(Some(_)) => {}, _ => break }
                }
                n += 1;
                let describe = format!("pallas-network2 responder offers {:?}, peer proposes {:?}{}", VERSIONS.iter().enumerate().filter(|(i, _)| ours >> i & 1 == 1).map(|(_, v)| *v).collect::<Vec<_>>(),
                    VERSIONS.iter().enumerate().filter(|(i, _)| theirs >> i & 1 == 1).map(|(_, v)| *v).collect::<Vec<_>>(),
                    match odd { Some(v) => format!(" with a different network magic on version {v}"), None => String::new() });
                let fail = |what: String| -> ! { println!("VIOLATED: {describe}: {what}"); std::process::exit(1) };
                let shown = format!("{sent:?}");
                if sent.len() != 1 { fail(format!("{} handshake messages sent: {shown}", sent.len())); }
                match (common.last().copied(), odd, &sent[0]) {
                    (None, _, hp::Message::Refuse(hp::RefuseReason::VersionMismatch(list))) => {
                        let mut list = list.clone(); list.sort();
                        let mine: Vec<u64> = VERSIONS.iter().enumerate().filter(|(i, _)| ours >> i & 1 == 1).map(|(_, v)| *v).collect();
                        if list != mine { fail(format!("the version-mismatch refusal lists {list:?}, the responder's versions are {mine:?}")); }
                        if !initialized.is_empty() { fail(format!("a refused peer is reported initialized")); }
                    }
                    (None, _, _) => fail(format!("disjoint version sets, the responder sent {shown}")),
                    (Some(hi), odd, hp::Message::Accept(v, d)) if odd != Some(hi) => {
                        if *v != hi || d.network_magic != MAGIC || initialized != vec![hi] { fail(format!("expected version {hi} to be accepted; sent {shown}, initialized {initialized:?}")); }
                    }
                    (Some(hi), odd, _) if odd != Some(hi) => fail(format!("expected version {hi} to be accepted; sent {shown}")),
                    (Some(hi), _, hp::Message::Refuse(hp::RefuseReason::Refused(v, _))) => { if *v != hi || !initialized.is_empty() { fail(format!("expected a refusal naming version {hi}; sent {shown}, initialized {initialized:?}")); } }
                    (Some(hi), _, _) => fail(format!("the highest common version {hi} carries a different network magic: expected a refusal naming it, the responder sent {shown}")),
                }
            }
        } }
    }
    println!("checked {n} handshakes (both stacks' responders): highest common version accepted iff its data agree, disjoint sets refused with the responder's list");
}
