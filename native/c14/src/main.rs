//! bounded(lengths 1..=40 and 64, 65, 255, 256, 1000; for each length every pair built from a base string by changing ONE byte at every position to
//! every value of {0x00, 0x01, 0x7f, 0x80, 0xff, base ^ 1, base + 1, base - 1} — equal strings, strings differing in one place early / late — plus 20 000
//! pseudo-random pairs with bytes drawn from {0x00, 0x01, 0x7f, 0x80, 0xfe, 0xff}): memeq is slice equality and memcmp is the lexicographic ordering of
//! the slices. Exit 1 with the first failing pair if not.
use pallas_crypto::memsec::{memcmp, memeq};

fn fail(msg: String) -> ! { println!("VIOLATED: {msg}"); std::process::exit(1) }
fn check(a: &[u8], b: &[u8], n: &mut u64) {
    let (eq, ord) = unsafe { (memeq(a.as_ptr(), b.as_ptr(), a.len()), memcmp(a.as_ptr(), b.as_ptr(), a.len())) };
    if eq != (a == b) { fail(format!("memeq({a:02x?}, {b:02x?}) is {eq}")); }
    if ord != a.cmp(b) { fail(format!("memcmp({a:02x?}, {b:02x?}) is {ord:?}, the lexicographic ordering is {:?}", a.cmp(b))); }
    *n += 1;
}
fn main() {
    let mut n = 0u64;
    let mut lens: Vec<usize> = (1..=40).collect(); lens.extend([64, 65, 255, 256, 1000]);
    for &len in &lens {
        for base_kind in 0..3u8 {
            let base: Vec<u8> = (0..len).map(|i| match base_kind { 0 => 0u8, 1 => 0xff, _ => (i * 37 + 11) as u8 }).collect();
            check(&base, &base, &mut n);
            let step = if len > 64 { len / 13 } else { 1 };
            for i in (0..len).step_by(step) {
                for v in [0x00u8, 0x01, 0x7f, 0x80, 0xff, base[i] ^ 1, base[i].wrapping_add(1), base[i].wrapping_sub(1)] {
                    let mut other = base.clone(); other[i] = v;
                    check(&base, &other, &mut n); check(&other, &base, &mut n);
                    // a second difference further on must not change the ordering decided at i
                    if i + 1 < len { let mut two = other.clone(); two[len - 1] = !two[len - 1]; check(&base, &two, &mut n); check(&two, &other, &mut n); }
                }
            }
        }
    }
    let mut seed = 0x9e3779b97f4a7c15u64;
    let vals = [0x00u8, 0x01, 0x7f, 0x80, 0xfe, 0xff];
    for _ in 0..20000 {
        let mut rnd = || { seed ^= seed << 13; seed ^= seed >> 7; seed ^= seed << 17; seed };
        let len = 1 + (rnd() % 12) as usize;
        let a: Vec<u8> = (0..len).map(|_| vals[(rnd() % 6) as usize]).collect();
        let b: Vec<u8> = (0..len).map(|_| vals[(rnd() % 6) as usize]).collect();
        check(&a, &b, &mut n);
    }
    println!("checked {n} pairs of equal-length byte strings");
}
