//! bounded(a deterministic sample of stored values — zero, +-1 ulp, integral, half-way, just below / above half-way, and pseudo-random
//! magnitudes up to 10^40 — at precisions 0, 1, 2, 5, 18 and 34 for rounding, comparison and printing, and every ordered pair of 61 such
//! values at the default precision 34 for + - * /): the results are checked against their DEFINING inequalities over exact integers
//! (only + * and comparison of big integers are used by the oracle), the printed form against the decimal expansion of the stored integer.
//! Exit 1 with the first failing input if not.
use dashu_int::IBig;
use pallas_math::math::{FixedDecimal, FixedPrecision};
use std::str::FromStr;

fn fail(msg: String) -> ! { println!("VIOLATED: {msg}"); std::process::exit(1) }
fn pow10(n: u64) -> IBig { let mut r = IBig::from(1); for _ in 0..n { r = r * IBig::from(10); } r }
fn dec(s: &str, p: u64) -> FixedDecimal { FixedDecimal::from_str(s, p).unwrap_or_else(|_| fail(format!("from_str({s}, {p}) is refused"))) }
/// the exact decimal expansion of the stored integer `s` at `p` fractional digits, written independently of the code under check
fn expand(s: &str, p: u64) -> String {
    let (neg, digits) = match s.strip_prefix('-') { Some(d) => (true, d), None => (false, s) };
    let digits = digits.trim_start_matches('0');
    let mut d = digits.to_string();
    while (d.len() as u64) < p + 1 { d.insert(0, '0'); }
    let cut = d.len() - p as usize;
    let neg = neg && !digits.is_empty();
    if p == 0 { return format!("{}{}.0", if neg { "-" } else { "" }, d); }   // no fractional digit to print: "<integer>.0" denotes the same value
    format!("{}{}.{}", if neg { "-" } else { "" }, &d[..cut], &d[cut..])
}
/// read the stored integer back out of the printed form (digits with the point removed)
fn stored(x: &FixedDecimal) -> IBig {
    let t = x.to_string();
    let t2: String = if x.precision() == 0 { t.strip_suffix(".0").unwrap_or_else(|| fail(format!("printed form {t:?} at precision 0"))).to_string() } else { t.chars().filter(|c| *c != '.').collect() };
    IBig::from_str(&t2).unwrap_or_else(|_| fail(format!("printed form {t:?} is not a decimal number")))
}
fn abs(a: &IBig) -> IBig { if *a < IBig::from(0) { IBig::from(0) - a } else { a.clone() } }

fn main() {
    let mut n = 0u64;
    let thorough = std::env::args().nth(1).as_deref() == Some("thorough");
    // ---- sample of stored integers per precision ------------------------------------------------------------------------------------
    let mut seed = 0x9e3779b97f4a7c15u64;
    let mut rnd = move || { seed ^= seed << 13; seed ^= seed >> 7; seed ^= seed << 17; seed };
    for &p in &[0u64, 1, 2, 5, 18, 34] {
        let pm = pow10(p);
        let half = if p == 0 { IBig::from(0) } else { IBig::from(5) * pow10(p - 1) };
        let mut vals: Vec<IBig> = vec![IBig::from(0), IBig::from(1), IBig::from(-1)];
        for k in [0i64, 1, 2, 3, 7, 10, 99, 12345] {
            for s in [1i64, -1] {
                let base = IBig::from(s * k) * &pm;
                for delta in [IBig::from(0), IBig::from(1), IBig::from(-1), half.clone(), IBig::from(0) - &half, &half + IBig::from(1), &half - IBig::from(1), IBig::from(1) - &half, IBig::from(-1) - &half, &pm - IBig::from(1), IBig::from(1) - &pm] {
                    vals.push(&base + delta);
                }
            }
        }
        for _ in 0..(if thorough { 3000 } else { 60 }) {
            let digits = 1 + (rnd() % 40) as usize;
            let mut s = String::new();
            for i in 0..digits { let c = (rnd() % 10) as u8; s.push((b'0' + if i == 0 && c == 0 { 1 } else { c }) as char); }
            let v = IBig::from_str(&s).unwrap();
            vals.push(if rnd() % 2 == 0 { v } else { IBig::from(0) - v });
        }
        for v in &vals {
            let s = v.to_string();
            let x = dec(&s, p);
            // printing: the exact decimal expansion of the stored value
            let printed = x.to_string();
            if printed != expand(&s, p) { fail(format!("stored {s} at precision {p} prints as {printed:?}, its decimal expansion is {:?}", expand(&s, p))); }
            // rounding: multiples of the multiplier prescribed by the names
            let zero = IBig::from(0);
            let multiple = |r: &IBig| -> bool { let q = r / &pm; q * &pm == *r };
            let (fl, ce, tr, ro) = (stored(&x.floor()), stored(&x.ceil()), stored(&x.trunc()), stored(&x.round()));
            if !multiple(&fl) || !(fl <= *v && *v < &fl + &pm) { fail(format!("floor of stored {s} at precision {p} is stored {fl}: not the greatest integer not above it")); }
            if !multiple(&ce) || !(*v <= ce && &ce - &pm < *v) { fail(format!("ceil of stored {s} at precision {p} is stored {ce}: not the least integer not below it")); }
            let want_tr = if *v >= zero { fl.clone() } else { ce.clone() };
            if tr != want_tr { fail(format!("trunc of stored {s} at precision {p} is stored {tr}, the integer towards zero is stored {want_tr}")); }
            if !multiple(&ro) || abs(&(&ro - v)) * IBig::from(2) > pm { fail(format!("round of stored {s} at precision {p} is stored {ro}: not an integer within one half of it")); }
            n += 1;
        }
        // comparisons agree with the exact values (same precision)
        for a in vals.iter().step_by(5) { for b in vals.iter().step_by(7) {
            let (x, y) = (dec(&a.to_string(), p), dec(&b.to_string(), p));
            if x.partial_cmp(&y) != Some(a.cmp(b)) || (x == y) != (a == b) { fail(format!("comparison of stored {a} and {b} at precision {p} disagrees with the exact values")); }
            n += 1;
        } }
    }
    // ---- arithmetic at the default precision -------------------------------------------------------------------------------------------
    let p = 34u64; let pm = pow10(34);
    let mut vals: Vec<IBig> = vec![IBig::from(0), IBig::from(1), IBig::from(-1), pm.clone(), IBig::from(0) - &pm, IBig::from(3) * &pm, IBig::from(-3) * &pm,
        &pm / IBig::from(3), IBig::from(0) - &pm / IBig::from(3), IBig::from(5) * pow10(33), IBig::from(-5) * pow10(33), IBig::from(7) * pow10(16), IBig::from(-7) * pow10(16)];
    while vals.len() < (if thorough { 400 } else { 61 }) {
        let digits = 1 + (rnd() % 40) as usize;
        let mut s = String::new();
        for i in 0..digits { let c = (rnd() % 10) as u8; s.push((b'0' + if i == 0 && c == 0 { 1 } else { c }) as char); }
        let v = IBig::from_str(&s).unwrap();
        vals.push(if rnd() % 2 == 0 { v } else { IBig::from(0) - v });
    }
    let zero = IBig::from(0);
    for a in &vals { for b in &vals {
        let (x, y) = (dec(&a.to_string(), p), dec(&b.to_string(), p));
        let sum = stored(&(x.clone() + y.clone()));
        if sum != a + b { fail(format!("stored {a} + stored {b} gives stored {sum}: not exact")); }
        let diff = stored(&(x.clone() - y.clone()));
        if diff != a - b { fail(format!("stored {a} - stored {b} gives stored {diff}: not exact")); }
        let prod = stored(&(x.clone() * y.clone()));
        let exact = a * b;
        if !(&prod * &pm <= exact && exact < (&prod + IBig::from(1)) * &pm) { fail(format!("stored {a} * stored {b} gives stored {prod}: not the floor of the exact product at 34 digits")); }
        let prod_ref = stored(&(&x * &y));
        if prod_ref != prod { fail(format!("&a * &b differs from a * b for stored {a}, {b}")); }
        if *b != zero {
            let quot = stored(&(x.clone() / y.clone()));
            let num = a * &pm;
            // truncation: |q*b| <= |num| < (|q|+1)*|b| and the sign of q is the sign of num/b (or q == 0)
            let ok_mag = abs(&(&quot * b)) <= abs(&num) && abs(&num) < (abs(&quot) + IBig::from(1)) * abs(b);
            let ok_sign = quot == zero || ((quot > zero) == ((num > zero) == (*b > zero)));
            if !ok_mag || !ok_sign { fail(format!("stored {a} / stored {b} gives stored {quot}: not the truncation of the exact quotient at 34 digits")); }
            let quot_ref = stored(&(&x / &y));
            if quot_ref != quot { fail(format!("&a / &b differs from a / b for stored {a}, {b}")); }
        }
        // the assigning forms agree with the by-value ones
        let mut t = x.clone(); t += y.clone(); if stored(&t) != sum { fail(format!("a += b differs from a + b for stored {a}, {b}")); }
        let mut t = x.clone(); t -= y.clone(); if stored(&t) != diff { fail(format!("a -= b differs from a - b for stored {a}, {b}")); }
        let mut t = x.clone(); t *= y.clone(); if stored(&t) != prod { fail(format!("a *= b gives stored {}, a * b stored {prod}, for stored {a}, {b}", stored(&t))); }
        if *b != zero { let mut t = x.clone(); t /= y.clone(); if stored(&t) != stored(&(x.clone() / y.clone())) { fail(format!("a /= b differs from a / b for stored {a}, {b}")); } }
        if stored(&(&x + &y)) != sum || stored(&(&x - &y)) != diff { fail(format!("&a + &b or &a - &b differs from the by-value form for stored {a}, {b}")); }
        n += 1;
    } }
    println!("checked {n} fixed-point cases");
}
