//! bounded(a 17-byte stream of four keep-alive messages cut into segments at every set of at most 3 cut points — 698 segmentations,
//! including one-byte pieces and cuts inside a message after a complete one — with segments of a second channel interleaved): the
//! real BearerReadHalf::read_full_msgs, fed over a loopback socket by a hand-written segment writer, hands out exactly the four
//! messages in order and leaves no bytes behind, whatever the segmentation. Exit 1 with the first failing segmentation if not.
use std::collections::HashMap;
use pallas_network2::bearer::Bearer;
use pallas_network2::behavior::AnyMessage;
use pallas_network2::protocol::{keepalive, peersharing};
use pallas_network2::{Channel, Message as _, Payload};
use tokio::io::AsyncWriteExt as _;
use tokio::net::{TcpListener, TcpStream};

fn messages() -> Vec<AnyMessage> {
    vec![AnyMessage::KeepAlive(keepalive::Message::KeepAlive(0x1111)), AnyMessage::KeepAlive(keepalive::Message::KeepAlive(0x2222)),
         AnyMessage::KeepAlive(keepalive::Message::KeepAlive(0x3333)), AnyMessage::KeepAlive(keepalive::Message::Done)]
}
async fn write_raw_segment(client: &mut TcpStream, channel: u16, payload: &[u8]) {
    let mut buf = Vec::with_capacity(8 + payload.len());
    buf.extend_from_slice(&0u32.to_be_bytes());
    buf.extend_from_slice(&channel.to_be_bytes());
    buf.extend_from_slice(&(payload.len() as u16).to_be_bytes());
    buf.extend_from_slice(payload);
    client.write_all(&buf).await.unwrap();
    client.flush().await.unwrap();
}
fn hex(b: &[u8]) -> String { b.iter().map(|x| format!("{x:02x}")).collect() }

#[tokio::main(flavor = "current_thread")]
async fn main() {
    let stream: Vec<u8> = messages().iter().flat_map(|m| m.payload()).collect();
    let expected: Vec<Payload> = messages().iter().map(|m| m.payload()).collect();
    // a second channel whose message arrives in two halves around the first channel's segments: must not disturb, nor be disturbed
    let other = AnyMessage::PeerSharing(peersharing::Message::ShareRequest(3)).payload();
    let len = stream.len();
    let mut cutsets: Vec<Vec<usize>> = vec![vec![]];
    for a in 1..len { cutsets.push(vec![a]); for b in a + 1..len { cutsets.push(vec![a, b]); for c in b + 1..len { cutsets.push(vec![a, b, c]); } } }
    cutsets.push((1..len).collect());

    let listener = TcpListener::bind("127.0.0.1:0").await.unwrap();
    let addr = listener.local_addr().unwrap();
    let mut client = TcpStream::connect(addr).await.unwrap();
    let (bearer, _) = Bearer::accept_tcp(&listener).await.unwrap();
    let (mut reader, _writer) = bearer.into_split();
    let mut n = 0u64;
    for (ci, cuts) in cutsets.iter().enumerate() {
        let mut bounds = vec![0]; bounds.extend_from_slice(cuts); bounds.push(len);
        let mut partial: HashMap<Channel, Payload> = HashMap::new();
        let mut received: Vec<Payload> = Vec::new();
        let mut received_other: Vec<Payload> = Vec::new();
        let interleave = ci % 2 == 1;
        let mut segs: Vec<(u16, Vec<u8>)> = Vec::new();
        if interleave { segs.push((peersharing::CHANNEL_ID, other[..1].to_vec())); }
        for w in bounds.windows(2) { segs.push((keepalive::CHANNEL_ID, stream[w[0]..w[1]].to_vec())); }
        if interleave { segs.push((peersharing::CHANNEL_ID, other[1..].to_vec())); }
        for (ch, bytes) in &segs {
            write_raw_segment(&mut client, *ch, bytes).await;
            let msgs: Vec<AnyMessage> = match reader.read_full_msgs(&mut partial).await { Ok(m) => m, Err(e) => { println!("VIOLATED: segmentation {cuts:?}: read_full_msgs failed: {e}"); std::process::exit(1); } };
            for m in msgs { if m.channel() == keepalive::CHANNEL_ID { received.push(m.payload()) } else { received_other.push(m.payload()) } }
        }
        let leftover: usize = partial.values().map(|x| x.len()).sum();
        n += 1;
        let other_ok = if interleave { received_other == vec![other.clone()] } else { received_other.is_empty() };
        if received != expected || leftover != 0 || !other_ok {
            println!("VIOLATED: keep-alive stream {} cut at {:?}{}: received {:?} (expected {:?}), {} byte(s) left in the buffers, other channel received {:?}",
                hex(&stream), cuts, if interleave { " with a peer-sharing message interleaved in two halves" } else { "" },
                received.iter().map(|p| hex(p)).collect::<Vec<_>>(), expected.iter().map(|p| hex(p)).collect::<Vec<_>>(), leftover,
                received_other.iter().map(|p| hex(p)).collect::<Vec<_>>());
            std::process::exit(1);
        }
    }
    println!("checked {n} segmentations: the same four messages in order, nothing left behind");
}
