//! bounded(every subset of {PlutusV1, V2, V3} x cost models drawn from a fixed pool of 7 vectors of length 0..3 with
//! zero / negative / 8-, 16-, 32-, 64-bit coefficients: 8 * 7^3 = 2744 language-view values, run exhaustively):
//! the real `impl Encode for LanguageViews` produces the ledger's canonical map — keys 1 (V2) and 2 (V3) ascending with
//! definite integer lists, then V1 with its key as the byte string 0x00 and its list as a byte string holding an indefinite list.
//! Exit 1 and print the first failing value if not.
use pallas_codec::minicbor;
use pallas_primitives::conway::LanguageViews;

fn head(major: u8, v: u64, out: &mut Vec<u8>) {
    let m = major << 5;
    if v < 24 { out.push(m | v as u8) }
    else if v <= 0xff { out.push(m | 24); out.push(v as u8) }
    else if v <= 0xffff { out.push(m | 25); out.extend_from_slice(&(v as u16).to_be_bytes()) }
    else if v <= 0xffff_ffff { out.push(m | 26); out.extend_from_slice(&(v as u32).to_be_bytes()) }
    else { out.push(m | 27); out.extend_from_slice(&v.to_be_bytes()) }
}
fn int(v: i64, out: &mut Vec<u8>) { if v >= 0 { head(0, v as u64, out) } else { head(1, (-1 - v) as u64, out) } }

fn main() {
    let pool: Vec<Vec<i64>> = vec![
        vec![], vec![0], vec![-1], vec![23, 24], vec![255, 256, -257], vec![65535, 65536, 4294967296], vec![i64::MAX, i64::MIN, -4294967297],
    ];
    let mut n = 0u64;
    for mask in 0u8..8 {
        for m0 in &pool { for m1 in &pool { for m2 in &pool {
            let mut entries: Vec<(u8, Vec<i64>)> = Vec::new();
            // insertion order deliberately not sorted
            if mask & 4 != 0 { entries.push((2, m2.clone())); }
            if mask & 1 != 0 { entries.push((0, m0.clone())); }
            if mask & 2 != 0 { entries.push((1, m1.clone())); }
            let lv: LanguageViews = entries.into_iter().collect();
            let got = minicbor::to_vec(&lv).expect("encoding into a Vec cannot fail");
            let mut want = Vec::new();
            head(5, (mask & 1 != 0) as u64 + (mask & 2 != 0) as u64 + (mask & 4 != 0) as u64, &mut want);
            if mask & 2 != 0 { want.push(0x01); head(4, m1.len() as u64, &mut want); for v in m1 { int(*v, &mut want) } }
            if mask & 4 != 0 { want.push(0x02); head(4, m2.len() as u64, &mut want); for v in m2 { int(*v, &mut want) } }
            if mask & 1 != 0 {
                want.push(0x41); want.push(0x00);
                let mut inner = vec![0x9f];
                for v in m0 { int(*v, &mut inner) }
                inner.push(0xff);
                head(2, inner.len() as u64, &mut want);
                want.extend_from_slice(&inner);
            }
            n += 1;
            if got != want {
                println!("VIOLATED: language views {{V1:{}, V2:{}, V3:{}}} with cost models V1={:?} V2={:?} V3={:?}", mask & 1 != 0, mask & 2 != 0, mask & 4 != 0, m0, m1, m2);
                println!("  encoded  {}", got.iter().map(|b| format!("{b:02x}")).collect::<String>());
                println!("  expected {}", want.iter().map(|b| format!("{b:02x}")).collect::<String>());
                std::process::exit(1);
            }
        } } }
    }
    println!("checked {n} language-view values: all in canonical form");
}
