//! bounded(every variant of the keep-alive and block-fetch messages, Point and Tip of both network stacks over 9 cookie / slot / number
//! values, 4 hash lengths and 4 body lengths): the encoding is exactly ONE well-formed CBOR item — checked by an independent strict
//! parser written here (definite container lengths must match their contents, nothing may follow the item) — and it decodes back to
//! the same message. Exit 1 with the first failing message if not.
use pallas_codec::minicbor;

/// strict well-formedness: returns the position after exactly one item, or None
fn item(b: &[u8], p: usize) -> Option<usize> {
    let h = *b.get(p)?; let major = h >> 5; let info = h & 31;
    let (arg, mut q): (u64, usize) = match info {
        0..=23 => (info as u64, p + 1),
        24 => (*b.get(p + 1)? as u64, p + 2),
        25 => (u16::from_be_bytes(b.get(p + 1..p + 3)?.try_into().ok()?) as u64, p + 3),
        26 => (u32::from_be_bytes(b.get(p + 1..p + 5)?.try_into().ok()?) as u64, p + 5),
        27 => (u64::from_be_bytes(b.get(p + 1..p + 9)?.try_into().ok()?), p + 9),
        31 if major == 4 => {   // indefinite-length array (SharePeers writes one): items up to the break
            let mut q = p + 1;
            loop { if *b.get(q)? == 0xff { return Some(q + 1); } q = item(b, q)?; }
        }
        _ => return None,
    };
    match major {
        0 | 1 | 7 => Some(q),
        2 | 3 => { let e = q.checked_add(arg as usize)?; if e <= b.len() { Some(e) } else { None } }
        4 => { for _ in 0..arg { q = item(b, q)?; } Some(q) }
        5 => { for _ in 0..2 * arg { q = item(b, q)?; } Some(q) }
        6 => item(b, q),
        _ => None,
    }
}
fn hex(b: &[u8]) -> String { b.iter().map(|x| format!("{x:02x}")).collect() }
fn check<T: for<'b> minicbor::Decode<'b, ()> + minicbor::Encode<()> + std::fmt::Debug>(what: &str, v: &T, same: impl Fn(&T, &T) -> bool, n: &mut u64) {
    let bytes = minicbor::to_vec(v).unwrap();
    if item(&bytes, 0) != Some(bytes.len()) { println!("VIOLATED: {what} {v:?} encodes to {} which is not exactly one well-formed CBOR item", hex(&bytes)); std::process::exit(1); }
    match minicbor::decode::<T>(&bytes) { Ok(back) if same(&back, v) => {}, o => { println!("VIOLATED: {what} {v:?} -> {} -> {o:?}", hex(&bytes)); std::process::exit(1); } }
    // reassembly (C21) rests on this: a proper prefix of a message never decodes, and for pallas-network's ChannelBuffer the decoder must report
    // END OF INPUT (any other error aborts the channel instead of waiting for the next segment)
    let v1 = !what.contains("network2");
    for cut in 1..bytes.len() {      // the channel buffer never decodes an empty buffer
        match minicbor::decode::<T>(&bytes[..cut]) {
            Ok(m) => { println!("VIOLATED: {what} {v:?}: the first {cut} of its {} bytes ({}) already decode, as {m:?}", bytes.len(), hex(&bytes)); std::process::exit(1); }
            Err(e) if v1 && !e.is_end_of_input() => { println!("VIOLATED: {what} {v:?}: decoding the first {cut} of its {} bytes ({}) fails with `{e}` instead of end-of-input — a segment boundary there breaks reassembly", bytes.len(), hex(&bytes)); std::process::exit(1); }
            Err(_) => {}
        }
    }
    // C09: damaged versions of the message (every single-bit flip, every byte replaced by an indefinite / 4- or 8-byte-length marker of every major type, every byte turned into an all-ones 4- or 8-byte length of its own major type) decode to a value or an
    // error — never a panic
    let prev = std::panic::take_hook(); std::panic::set_hook(Box::new(|_| {}));
    let mut dmg = |m: &[u8], how: String| { DAMAGED.with(|d| d.set(d.get() + 1));
        if std::panic::catch_unwind(std::panic::AssertUnwindSafe(|| { let _ = minicbor::decode::<T>(m); })).is_err() { println!("VIOLATED: {what} {v:?}: decoding PANICS on {} ({how} of {})", hex(m), hex(&bytes)); std::process::exit(1); } };
    for pos in 0..bytes.len().min(400) {
        for bit in 0..8 { let mut m = bytes.clone(); m[pos] ^= 1 << bit; dmg(&m, format!("bit {bit} of byte {pos} flipped")); }
        for r in [0x1bu8, 0x5f, 0x9f, 0xbf, 0xff, 0x3b, 0xdb, 0x5b, 0x7b, 0x9b, 0xbb, 0x9a, 0xba] { if bytes[pos] != r { let mut m = bytes.clone(); m[pos] = r; dmg(&m, format!("byte {pos} replaced by {r:#04x}")); } }
        // the byte keeps its major type and claims the longest length there is: additional information 27 followed by eight ff bytes (and 26 followed by four)
        for (ai, fill) in [(27u8, 8usize), (26, 4)] { let mut m = bytes[..pos].to_vec(); m.push((bytes[pos] & 0xe0) | ai); m.extend(std::iter::repeat(0xffu8).take(fill)); m.extend_from_slice(&bytes[pos + 1..]); dmg(&m, format!("byte {pos} turned into a {fill}-byte length of all ones")); }
    }
    std::panic::set_hook(prev);
    *n += 1;
}
thread_local! { static DAMAGED: std::cell::Cell<u64> = std::cell::Cell::new(0); }

fn main() {
    let nums: [u64; 9] = [0, 1, 23, 24, 255, 256, 65535, 65536, u64::MAX];
    let hashes: Vec<Vec<u8>> = vec![vec![], vec![7; 1], vec![9; 32], vec![3; 300]];
    let mut n = 0u64;
    {   // pallas-network
        use pallas_network::miniprotocols::{blockfetch, chainsync::Tip, keepalive, Point};
        let mut points = vec![Point::Origin];
        for s in nums { for h in &hashes { points.push(Point::Specific(s, h.clone())); } }
        for p in &points { check("network Point", p, |a, b| a == b, &mut n); }
        for p in points.iter().step_by(5) { for x in nums { check("network Tip", &Tip(p.clone(), x), |a, b| a == b, &mut n); } }
        for c in nums { let c = c as u16;
            check("network keepalive", &keepalive::Message::KeepAlive(c), |a, b| format!("{a:?}") == format!("{b:?}"), &mut n);
            check("network keepalive", &keepalive::Message::ResponseKeepAlive(c), |a, b| format!("{a:?}") == format!("{b:?}"), &mut n); }
        check("network keepalive", &keepalive::Message::Done, |a, b| format!("{a:?}") == format!("{b:?}"), &mut n);
        let same = |a: &blockfetch::Message, b: &blockfetch::Message| format!("{a:?}") == format!("{b:?}");
        for m in [blockfetch::Message::ClientDone, blockfetch::Message::StartBatch, blockfetch::Message::NoBlocks, blockfetch::Message::BatchDone] { check("network blockfetch", &m, same, &mut n); }
        for len in [0usize, 1, 23, 600] { check("network blockfetch", &blockfetch::Message::Block { body: vec![0xa5; len] }, same, &mut n); }
        for p in points.iter().step_by(7) { for q in points.iter().step_by(11) { check("network blockfetch", &blockfetch::Message::RequestRange { range: (p.clone(), q.clone()) }, same, &mut n); } }
        // chain-sync messages over raw header content; point lists with repeated and adjacent-equal points
        use pallas_network::miniprotocols::chainsync::{HeaderContent, Message as CS};
        let samecs = |a: &CS<HeaderContent>, b: &CS<HeaderContent>| format!("{a:?}") == format!("{b:?}");
        let tip = Tip(points[5].clone(), 77);
        let hc = HeaderContent { variant: 6, byron_prefix: None, cbor: vec![0x82, 0x01, 0x02] };
        let hcb = HeaderContent { variant: 0, byron_prefix: Some((1, 2)), cbor: vec![0x80] };
        for m in [CS::RequestNext, CS::AwaitReply, CS::Done, CS::RollForward(hc.clone(), tip.clone()), CS::RollForward(hcb.clone(), tip.clone()),
                  CS::RollBackward(points[3].clone(), tip.clone()), CS::RollBackward(Point::Origin, tip.clone()),
                  CS::IntersectFound(points[9].clone(), tip.clone()), CS::IntersectNotFound(tip.clone())] { check("network chainsync", &m, samecs, &mut n); }
        let lists: Vec<Vec<Point>> = vec![vec![], vec![Point::Origin], vec![Point::Origin, Point::Origin], vec![points[3].clone(), points[3].clone()],
            vec![points[3].clone(), Point::Origin, Point::Origin], vec![points[3].clone(), points[4].clone(), points[3].clone()], points.iter().take(30).cloned().collect()];
        for l in lists { check("network chainsync", &CS::<HeaderContent>::FindIntersect(l), samecs, &mut n); }
    }
    {   // tx-submission payloads (pallas-network)
        use pallas_network::miniprotocols::txsubmission::{EraTxBody, EraTxId, TxIdAndSize};
        for era in [0u16, 1, 6, 23, 24, 65535] { for len in [0usize, 1, 32, 300] {
            check("network EraTxId", &EraTxId(era, vec![0x5a; len]), |a, b| a == b, &mut n);
            check("network EraTxBody", &EraTxBody(era, vec![0xc3; len]), |a, b| a == b, &mut n);
            for size in [0u32, 1, 65536, u32::MAX] { check("network TxIdAndSize", &TxIdAndSize(EraTxId(era, vec![0x5a; len]), size), |a, b| a == b, &mut n); }
        } }
    }
    {   // handshake (node-to-node and node-to-client), tx-submission, tx-monitor and local-tx-submission messages (pallas-network)
        use pallas_network::miniprotocols::{handshake, txsubmission, txmonitor, localtxsubmission};
        use handshake::{Message as H, RefuseReason, VersionTable};
        let dbg = |a: &dyn std::fmt::Debug, b: &dyn std::fmt::Debug| format!("{a:?}") == format!("{b:?}");
        let n2n = handshake::n2n::VersionTable::v7_and_above(764824073);
        let n2c = handshake::n2c::VersionTable::v10_and_above(764824073);
        let mut vd_n2n = Vec::new();
        for (_, d) in n2n.values.iter() { vd_n2n.push(d.clone()); }
        check("n2n handshake Propose", &H::Propose(n2n.clone()), |a, b| dbg(a, b) || matches!((a, b), (H::Propose(x), H::Propose(y)) if x.values == y.values), &mut n);
        check("n2n handshake QueryReply", &H::QueryReply(n2n.clone()), |a, b| dbg(a, b) || matches!((a, b), (H::QueryReply(x), H::QueryReply(y)) if x.values == y.values), &mut n);
        for (v, d) in n2n.values.iter() { check("n2n handshake Accept", &H::Accept(*v, d.clone()), |a, b| dbg(a, b), &mut n); }
        check("n2c handshake Propose", &H::Propose(n2c.clone()), |a, b| dbg(a, b) || matches!((a, b), (H::Propose(x), H::Propose(y)) if x.values == y.values), &mut n);
        for (v, d) in n2c.values.iter() { check("n2c handshake Accept", &H::Accept(*v, d.clone()), |a, b| dbg(a, b), &mut n); }
        for r in [RefuseReason::VersionMismatch(vec![]), RefuseReason::VersionMismatch(vec![7, 13, 70000]), RefuseReason::HandshakeDecodeError(13, "bad".into()), RefuseReason::Refused(14, String::new())] {
            check("handshake Refuse", &H::<handshake::n2n::VersionData>::Refuse(r), |a, b| dbg(a, b), &mut n);
        }
        let _ = VersionTable::<handshake::n2n::VersionData> { values: Default::default() };
        type TS = txsubmission::Message<txsubmission::EraTxId, txsubmission::EraTxBody>;
        let id = |k: u8| txsubmission::EraTxId(6, vec![k; 32]);
        let msgs: Vec<TS> = vec![TS::Init, TS::Done, TS::RequestTxIds(true, 0, 3), TS::RequestTxIds(false, 65535, 65535),
            TS::ReplyTxIds(vec![]), TS::ReplyTxIds(vec![txsubmission::TxIdAndSize(id(1), 300), txsubmission::TxIdAndSize(id(2), u32::MAX)]),
            TS::RequestTxs(vec![]), TS::RequestTxs(vec![id(1), id(2), id(3)]),
            TS::ReplyTxs(vec![]), TS::ReplyTxs(vec![txsubmission::EraTxBody(6, vec![0x84; 200]), txsubmission::EraTxBody(5, vec![])])];
        for m in &msgs { check("tx-submission message", m, |a, b| dbg(a, b), &mut n); }
        let _ = (&txmonitor::Message::Done, &localtxsubmission::Message::<u8, u8>::Done);
        for m in [txmonitor::Message::Done, txmonitor::Message::Acquire, txmonitor::Message::AwaitAcquire, txmonitor::Message::Release, txmonitor::Message::RequestNextTx,
                  txmonitor::Message::RequestSizeAndCapacity, txmonitor::Message::Acquired(0), txmonitor::Message::Acquired(u64::MAX), txmonitor::Message::RequestHasTx(hex(&[7u8; 32])),
                  txmonitor::Message::ResponseHasTx(true), txmonitor::Message::ResponseHasTx(false)] {
            check("tx-monitor message", &m, |a, b| dbg(a, b), &mut n);
        }
    }

    {   // pallas-network: the node-to-client protocols — local state query, local tx submission, local message submission / notification
        use pallas_network::miniprotocols::{localstate, localtxsubmission, localmsgsubmission, localmsgnotification, Point};
        use pallas_codec::utils::AnyCbor;
        let dbg = |a: &dyn std::fmt::Debug, b: &dyn std::fmt::Debug| format!("{a:?}") == format!("{b:?}");
        let pts = [None, Some(Point::Origin), Some(Point::Specific(0, vec![])), Some(Point::Specific(u64::MAX, vec![9; 32]))];
        use localstate::{AcquireFailure, Message as LS};
        let mut msgs: Vec<LS> = vec![LS::Acquired, LS::Release, LS::Done, LS::Failure(AcquireFailure::PointTooOld), LS::Failure(AcquireFailure::PointNotOnChain)];
        for p in &pts { msgs.push(LS::Acquire(p.clone())); msgs.push(LS::ReAcquire(p.clone())); }
        for raw in [vec![0x00u8], vec![0x82, 0x01, 0x81, 0x02], vec![0x9f, 0x01, 0xff], vec![0x58, 0x20].into_iter().chain(std::iter::repeat(7u8).take(32)).collect::<Vec<u8>>()] {
            msgs.push(LS::Query(AnyCbor::from_raw_bytes(raw.clone()))); msgs.push(LS::Result(AnyCbor::from_raw_bytes(raw)));
        }
        for m in &msgs { check("local state query", m, |a, b| dbg(a, b), &mut n); }
        {
            use localtxsubmission::{EraTx, Message as LT};
            type M = LT<EraTx, localmsgsubmission::DmqMsgValidationError>;   // the reject payload is generic (the ledger error encoder is unfinished in the library: todo!())
            for m in [M::AcceptTx, M::Done, M::SubmitTx(EraTx(0, vec![])), M::SubmitTx(EraTx(6, vec![0x84; 300])), M::SubmitTx(EraTx(65535, vec![1])), M::RejectTx(localmsgsubmission::DmqMsgValidationError(localmsgsubmission::DmqMsgRejectReason::Other("refused".into())))] { check("local tx submission", &m, |a, b| dbg(a, b), &mut n); }
        }
        {
            use localmsgsubmission::{DmqMsg, DmqMsgOperationalCertificate, DmqMsgPayload, DmqMsgRejectReason, DmqMsgValidationError};
            type LM = localtxsubmission::Message<DmqMsg, DmqMsgValidationError>;
            let mk = |k: u8, len: usize| DmqMsg { msg_id: vec![k; len], msg_payload: DmqMsgPayload { msg_body: vec![k ^ 0x55; len * 3], kes_period: k as u64 * 1000, expires_at: u32::MAX - k as u32 },
                kes_signature: vec![k; 448.min(len * 50)], operational_certificate: DmqMsgOperationalCertificate { kes_vk: vec![k; 32], issue_number: k as u64, start_kes_period: u64::MAX, cert_sig: vec![3; 64] }, cold_verification_key: vec![k; 32] };
            let dmqs = [mk(0, 0), mk(1, 1), mk(200, 9)];
            for d in &dmqs { check("DMQ message", d, |a, b| a == b, &mut n); check("local message submission", &LM::SubmitTx(d.clone()), |a, b| dbg(a, b), &mut n); }
            for m in [LM::AcceptTx, LM::Done, LM::RejectTx(DmqMsgValidationError(DmqMsgRejectReason::Invalid("bad".into()))), LM::RejectTx(DmqMsgValidationError(DmqMsgRejectReason::AlreadyReceived)),
                      LM::RejectTx(DmqMsgValidationError(DmqMsgRejectReason::Expired)), LM::RejectTx(DmqMsgValidationError(DmqMsgRejectReason::Other(String::new())))] { check("local message submission", &m, |a, b| dbg(a, b), &mut n); }
            use localmsgnotification::Message as LN;
            for m in [LN::RequestMessagesNonBlocking, LN::RequestMessagesBlocking, LN::ClientDone, LN::ReplyMessagesNonBlocking(vec![], false), LN::ReplyMessagesNonBlocking(dmqs.to_vec(), true),
                      LN::ReplyMessagesBlocking(vec![dmqs[1].clone()]), LN::ReplyMessagesBlocking(dmqs.to_vec())] { check("local message notification", &m, |a, b| dbg(a, b), &mut n); }
        }
    }
    {   // pallas-network2
        use pallas_network2::protocol::{chainsync::Tip, keepalive, Point};
        let mut points = vec![Point::Origin];
        for s in nums { for h in &hashes { points.push(Point::Specific(s, h.clone())); } }
        for p in &points { check("network2 Point", p, |a, b| a == b, &mut n); }
        for p in points.iter().step_by(5) { for x in nums { check("network2 Tip", &Tip(p.clone(), x), |a, b| a == b, &mut n); } }
        for c in nums { let c = c as u16;
            check("network2 keepalive", &keepalive::Message::KeepAlive(c), |a, b| format!("{a:?}") == format!("{b:?}"), &mut n);
            check("network2 keepalive", &keepalive::Message::ResponseKeepAlive(c), |a, b| format!("{a:?}") == format!("{b:?}"), &mut n); }
        check("network2 keepalive", &keepalive::Message::Done, |a, b| format!("{a:?}") == format!("{b:?}"), &mut n);

        {   // pallas-network2: block-fetch, chain-sync, tx-submission, handshake messages
            use pallas_network2::protocol::{blockfetch, chainsync, txsubmission, handshake};
            let dbg = |a: &dyn std::fmt::Debug, b: &dyn std::fmt::Debug| format!("{a:?}") == format!("{b:?}");
            for m in [blockfetch::Message::ClientDone, blockfetch::Message::StartBatch, blockfetch::Message::NoBlocks, blockfetch::Message::BatchDone] { check("network2 blockfetch", &m, |a, b| dbg(a, b), &mut n); }
            for len in [0usize, 1, 23, 600] { check("network2 blockfetch", &blockfetch::Message::Block(vec![0xa5; len]), |a, b| dbg(a, b), &mut n); }
            for p in points.iter().step_by(7) { for q in points.iter().step_by(11) { check("network2 blockfetch", &blockfetch::Message::RequestRange((p.clone(), q.clone())), |a, b| dbg(a, b), &mut n); } }
            type CS = chainsync::Message<chainsync::HeaderContent>;
            let tip = Tip(points[5].clone(), 77);
            let hc = chainsync::HeaderContent { variant: 1, byron_prefix: None, cbor: vec![0x82, 0x01, 0x02] };
            let hcb = chainsync::HeaderContent { variant: 0, byron_prefix: Some((1, 9)), cbor: vec![0x80] };
            for m in [CS::RequestNext, CS::AwaitReply, CS::Done, CS::RollForward(hc.clone(), tip.clone()), CS::RollForward(hcb.clone(), tip.clone()), CS::RollBackward(points[3].clone(), tip.clone()),
                      CS::IntersectFound(points[9].clone(), tip.clone()), CS::IntersectNotFound(tip.clone())] { check("network2 chainsync", &m, |a, b| dbg(a, b), &mut n); }
            for l in [vec![], vec![points[0].clone()], vec![points[2].clone(), points[2].clone()], points.iter().step_by(6).cloned().collect::<Vec<_>>()] { check("network2 chainsync", &CS::FindIntersect(l), |a, b| dbg(a, b), &mut n); }
            use txsubmission::{EraTxBody, EraTxId, Message as TS, TxIdAndSize};
            let ids: Vec<EraTxId> = vec![EraTxId(0, vec![]), EraTxId(6, vec![0x5a; 32]), EraTxId(65535, vec![1; 300])];
            let mut msgs = vec![TS::Init, TS::Done, TS::RequestTxIds(true, 0, 1), TS::RequestTxIds(false, 65535, 24), TS::ReplyTxIds(vec![]), TS::RequestTxs(vec![]), TS::ReplyTxs(vec![])];
            for k in 1..=3 { msgs.push(TS::ReplyTxIds(ids.iter().take(k).map(|i| TxIdAndSize(i.clone(), 70000 * k as u32)).collect())); msgs.push(TS::RequestTxs(ids.iter().take(k).cloned().collect()));
                             msgs.push(TS::ReplyTxs(ids.iter().take(k).map(|i| EraTxBody(i.0, i.1.clone())).collect())); }
            for m in &msgs { check("network2 tx-submission", m, |a, b| dbg(a, b), &mut n); }
            type H = handshake::Message<handshake::n2n::VersionData>;
            let table = handshake::n2n::VersionTable::v7_and_above(764824073);
            let same_table = |a: &H, b: &H| match (a, b) { (H::Propose(x), H::Propose(y)) | (H::QueryReply(x), H::QueryReply(y)) => format!("{:?}", { let mut v: Vec<_> = x.values.iter().collect(); v.sort_by_key(|e| *e.0); v }) == format!("{:?}", { let mut v: Vec<_> = y.values.iter().collect(); v.sort_by_key(|e| *e.0); v }), _ => dbg(a, b) };
            check("network2 handshake", &H::Propose(table.clone()), same_table, &mut n);
            check("network2 handshake", &H::QueryReply(table.clone()), same_table, &mut n);
            for (v, d) in table.values.iter() { check("network2 handshake", &H::Accept(*v, d.clone()), same_table, &mut n); }
            for r in [handshake::RefuseReason::VersionMismatch(vec![]), handshake::RefuseReason::VersionMismatch(vec![7, 13, 70000]), handshake::RefuseReason::HandshakeDecodeError(13, "bad".into()), handshake::RefuseReason::Refused(14, String::new())] {
                check("network2 handshake", &H::Refuse(r), same_table, &mut n); }
        }
    }
    {   // peer sharing (both stacks): addresses and messages
        use std::net::{Ipv4Addr, Ipv6Addr};
        let v4s = [Ipv4Addr::new(0, 0, 0, 0), Ipv4Addr::new(127, 0, 0, 1), Ipv4Addr::new(255, 255, 255, 255)];
        let v6s = [Ipv6Addr::from_bits(0), Ipv6Addr::new(0, 0, 0, 0, 0, 0xffff, 0xc00a, 0x2ff), Ipv6Addr::from_bits(u128::MAX), Ipv6Addr::new(0x2001, 0xdb8, 1, 2, 3, 4, 5, 6)];
        let ports = [0u32, 1, 3001, 65535];
        {
            use pallas_network::miniprotocols::peersharing::{Message, PeerAddress};
            let mut addrs = Vec::new();
            for p in ports { for a in v4s { addrs.push(PeerAddress::V4(a, p)); } for a in v6s { addrs.push(PeerAddress::V6(a, p)); } }
            for a in &addrs { check("network PeerAddress", a, |x, y| x == y, &mut n); }
            let same = |a: &Message, b: &Message| format!("{a:?}") == format!("{b:?}");
            for k in [0u8, 1, 23, 24, 255] { check("network peersharing", &Message::ShareRequest(k), same, &mut n); }
            check("network peersharing", &Message::Done, same, &mut n);
            for len in [0usize, 1, 2, 5] { check("network peersharing", &Message::SharePeers(addrs.iter().step_by(3).take(len).cloned().collect()), same, &mut n); }
        }
        {
            use pallas_network2::protocol::peersharing::{Message, PeerAddress};
            let mut addrs = Vec::new();
            for p in ports { let p = p as u16; for a in v4s { addrs.push(PeerAddress::V4(a, p)); } for a in v6s { addrs.push(PeerAddress::V6(a, p)); } }
            for a in &addrs { check("network2 PeerAddress", a, |x, y| x == y, &mut n); }
            let same = |a: &Message, b: &Message| format!("{a:?}") == format!("{b:?}");
            for k in [0u8, 1, 23, 24, 255] { check("network2 peersharing", &Message::ShareRequest(k), same, &mut n); }
            check("network2 peersharing", &Message::Done, same, &mut n);
            for len in [0usize, 1, 2, 5] { check("network2 peersharing", &Message::SharePeers(addrs.iter().step_by(3).take(len).cloned().collect()), same, &mut n); }
        }
    }
    println!("checked {n} messages: one well-formed item each, decode(encode(m)) == m; {} damaged versions decode without a panic", DAMAGED.with(|d| d.get()));
}
