//! bounded(SEQS (default 300; `thorough`: 5000) pseudo-random schedules of 200 steps over 2 peers. The initiator behaviour of pallas-network2 runs against a simulated
//! interface and a specification-conformant responder: what the behaviour sends is on the wire at once and answered at once by the responder (handshake
//! accepted, keep-alive echoed, share request answered within the amount, intersection found, next header rolled forward or awaited, block range served), but
//! the SENT confirmation (in every second schedule; in the others it is immediate) and the answers reach the behaviour later, in order, at pseudo-random moments — with commands (IncludePeer, Housekeeping, StartSync,
//! ContinueSync, RequestBlocks) in between, Housekeeping most often. A shadow copy of the five protocol state machines (handshake, keep-alive, peer sharing,
//! chain sync, block fetch — the library's own State::apply, whose conformance to the specification is proved under C24) follows what the initiator has
//! emitted (at emission) and received (at delivery). Every message
//! the behaviour EMITS must be accepted by the shadow state of its protocol. Exit 1 with the schedule if one is not.
use futures::StreamExt;
use pallas_network2::behavior::{AnyMessage, InitiatorBehavior, InitiatorCommand};
use pallas_network2::protocol as proto;
use pallas_network2::{Behavior, BehaviorOutput, InterfaceCommand, InterfaceEvent, PeerId};
use std::collections::VecDeque;

fn pid(n: u64) -> PeerId { PeerId { host: format!("10.0.0.{n}"), port: 3000 + n as u16 } }
struct Rng(u64);
impl Rng { fn next(&mut self) -> u64 { self.0 ^= self.0 << 13; self.0 ^= self.0 >> 7; self.0 ^= self.0 << 17; self.0 } fn below(&mut self, n: u64) -> u64 { self.next() % n } }

#[derive(Default)]
struct Shadow { handshake: proto::handshake::State<proto::handshake::n2n::VersionData>, keepalive: proto::keepalive::State, peersharing: proto::peersharing::State,
    chainsync: proto::chainsync::State<proto::chainsync::HeaderContent>, blockfetch: proto::blockfetch::State }
impl Shadow {
    /// the message in wire order; Err(protocol) if the protocol's state machine does not permit it
    fn apply(&mut self, m: &AnyMessage) -> Result<(), String> {
        // the protocol and the state (variant name) it was in
        fn st<T: std::fmt::Debug>(p: &str, s: &T) -> String { let d = format!("{s:?}"); format!("{p} state machine in state {}", d.split(|c: char| !c.is_alphanumeric()).next().unwrap_or("?")) }
        match m {
            AnyMessage::Handshake(x) => { self.handshake = self.handshake.apply(x).map_err(|_| st("handshake", &self.handshake))?; }
            AnyMessage::KeepAlive(x) => { self.keepalive = self.keepalive.apply(x).map_err(|_| st("keep-alive", &self.keepalive))?; }
            AnyMessage::PeerSharing(x) => { self.peersharing = self.peersharing.apply(x).map_err(|_| st("peer-sharing", &self.peersharing))?; }
            AnyMessage::ChainSync(x) => { self.chainsync = self.chainsync.apply(x).map_err(|_| st("chain-sync", &self.chainsync))?; }
            AnyMessage::BlockFetch(x) => { self.blockfetch = self.blockfetch.apply(x).map_err(|_| st("block-fetch", &self.blockfetch))?; }
            _ => {}      // tx-submission (open C24 findings in its state machine) and the leios protocols are not followed
        }
        Ok(())
    }
}
/// what a conformant responder answers, at once, to a message it has just received
fn answers(m: &AnyMessage, r: &mut Rng, accept: &AnyMessage) -> Vec<AnyMessage> {
    let tip = proto::chainsync::Tip(proto::Point::Specific(100, vec![1; 32]), 100);
    match m {
        AnyMessage::Handshake(proto::handshake::Message::Propose(_)) => vec![accept.clone()],
        AnyMessage::KeepAlive(proto::keepalive::Message::KeepAlive(c)) => vec![AnyMessage::KeepAlive(proto::keepalive::Message::ResponseKeepAlive(*c))],
        AnyMessage::PeerSharing(proto::peersharing::Message::ShareRequest(n)) => {
            let k = r.below(*n as u64 + 1).min(5) as u32;
            vec![AnyMessage::PeerSharing(proto::peersharing::Message::SharePeers((0..k).map(|i| proto::peersharing::PeerAddress::V4(std::net::Ipv4Addr::from(0x0a00_0100 + i), 3001)).collect()))] }
        AnyMessage::ChainSync(proto::chainsync::Message::FindIntersect(pts)) => vec![AnyMessage::ChainSync(match pts.first() {
            Some(p) if r.below(4) != 0 => proto::chainsync::Message::IntersectFound(p.clone(), tip), _ => proto::chainsync::Message::IntersectNotFound(tip) })],
        AnyMessage::ChainSync(proto::chainsync::Message::RequestNext) => {
            let hdr = proto::chainsync::HeaderContent { variant: 1, byron_prefix: None, cbor: vec![0x80] };
            if r.below(3) == 0 { vec![AnyMessage::ChainSync(proto::chainsync::Message::AwaitReply), AnyMessage::ChainSync(proto::chainsync::Message::RollForward(hdr, tip))] }
            else { vec![AnyMessage::ChainSync(proto::chainsync::Message::RollForward(hdr, tip))] } }
        AnyMessage::BlockFetch(proto::blockfetch::Message::RequestRange(_)) => if r.below(3) == 0 { vec![AnyMessage::BlockFetch(proto::blockfetch::Message::NoBlocks)] } else {
            vec![AnyMessage::BlockFetch(proto::blockfetch::Message::StartBatch), AnyMessage::BlockFetch(proto::blockfetch::Message::Block(vec![1, 2, 3])), AnyMessage::BlockFetch(proto::blockfetch::Message::BatchDone)] },
        _ => vec![],
    }
}
/// one peer's connection as the interface sees it
#[derive(Default)]
struct Wire { connect_asked: bool, connected: bool, unconfirmed: VecDeque<(AnyMessage, Vec<AnyMessage>)>, inbound: VecDeque<AnyMessage>, shadow: Shadow }

fn run(seed: u64, accept: &AnyMessage) -> Option<String> {
    let mut r = Rng(seed.wrapping_mul(0x9e3779b97f4a7c15) | 1);
    let mut b = InitiatorBehavior::default();
    let mut wires: Vec<Wire> = (0..3).map(|_| Wire::default()).collect();       // index 1, 2
    let mut log: Vec<String> = Vec::new();
    let waker = futures::task::noop_waker(); let mut cx = std::task::Context::from_waker(&waker);
    for _step in 0..200 {
        let k = 1 + r.below(2) as usize;
        let what: String;
        match r.below(20) {
            0 => { what = format!("IncludePeer({k})"); b.execute(InitiatorCommand::IncludePeer(pid(k as u64))); }
            1 | 2 | 3 | 4 => { what = "Housekeeping".into(); b.execute(InitiatorCommand::Housekeeping); }
            5 => { what = "StartSync".into(); b.execute(InitiatorCommand::StartSync(vec![proto::Point::Specific(50, vec![2; 32]), proto::Point::Origin])); }
            6 | 7 | 8 => { what = format!("ContinueSync({k})"); b.execute(InitiatorCommand::ContinueSync(pid(k as u64))); }
            9 => { what = "RequestBlocks".into(); b.execute(InitiatorCommand::RequestBlocks((proto::Point::Specific(60, vec![3; 32]), proto::Point::Specific(70, vec![4; 32])))); }
            10 | 11 => { let w = &mut wires[k]; if w.connect_asked && !w.connected { w.connected = true; what = format!("Connected({k})"); b.handle_io(InterfaceEvent::Connected(pid(k as u64))); } else { continue; } }
            12 | 13 | 14 | 15 => { let w = &mut wires[k]; match w.unconfirmed.pop_front() { Some((m, ans)) => { what = format!("Sent({k}, {})", short(&m)); w.inbound.extend(ans); b.handle_io(InterfaceEvent::Sent(pid(k as u64), m)); } None => continue } }
            _ => { let w = &mut wires[k];
                    // a delivery carries what has arrived: one message, or in the prompt mode up to three at once (the interface hands over a Vec)
                    let want = if seed % 2 == 1 { 1 + r.below(3) as usize } else { 1 };
                    let mut batch: Vec<AnyMessage> = Vec::new();
                    while batch.len() < want { match w.inbound.pop_front() { Some(m) => batch.push(m), None => break } }
                    if batch.is_empty() { continue; }
                    what = format!("Recv({k}, {})", batch.iter().map(short).collect::<Vec<_>>().join(" + "));
                    // the shadow follows what the INITIATOR has emitted and received: an answer counts from the moment it is delivered
                    for m in &batch { if w.shadow.apply(m).is_err() { return Some(format!("seed {seed}: the simulated responder is not conformant ({})", short(m))); } }
                    b.handle_io(InterfaceEvent::Recv(pid(k as u64), batch)); }
        }
        log.push(what);
        // what the behaviour emits goes on the wire now, in order; in the PROMPT mode (every second seed) the interface confirms each send before anything else
        // happens — no lag between emission and confirmation, so what is found there is not a matter of delayed confirmations
        loop {
        for _ in 0..10_000 { match b.poll_next_unpin(&mut cx) {
            std::task::Poll::Ready(Some(BehaviorOutput::InterfaceCommand(InterfaceCommand::Connect(p)))) => { if let Some(i) = (1..3).find(|i| pid(*i as u64) == p) { wires[i].connect_asked = true; } }
            std::task::Poll::Ready(Some(BehaviorOutput::InterfaceCommand(InterfaceCommand::Disconnect(p)))) => { if let Some(i) = (1..3).find(|i| pid(*i as u64) == p) { wires[i] = Wire::default(); b.handle_io(InterfaceEvent::Disconnected(p)); log.push(format!("Disconnected({i})")); } }
            std::task::Poll::Ready(Some(BehaviorOutput::InterfaceCommand(InterfaceCommand::Send(p, m)))) => {
                let Some(i) = (1..3).find(|i| pid(*i as u64) == p) else { continue };
                if let Err(proto_name) = wires[i].shadow.apply(&m) {
                    return Some(format!("seed {seed}: after [{}] the initiator emits {} to peer {i}, which the {proto_name} does not permit after the messages already exchanged with that peer [trigger={}]", log.join(", "), short(&m),
                        match log.last().map(|l| l.as_str()).unwrap_or("") { l if l.starts_with("Recv(") => "a_delivery", l if l.starts_with("Sent(") => "a_confirmation", l if l.starts_with("Connected(") || l.starts_with("Disconnected(") => "a_connection_event", _ => "a_command" }));
                }
                STATS.with(|st| *st.borrow_mut().entry(short(&m).chars().take(24).collect::<String>()).or_insert(0u64) += 1);
                let ans = answers(&m, &mut r, accept);
                wires[i].unconfirmed.push_back((m, ans));
            }
            std::task::Poll::Ready(Some(_)) => {}
            _ => break } }
            if seed % 2 == 0 { break; }
            let mut any = false;
            for i in 1..3 { while let Some((m, ans)) = wires[i].unconfirmed.pop_front() { any = true; log.push(format!("Sent({i}, {})", short(&m))); wires[i].inbound.extend(ans); b.handle_io(InterfaceEvent::Sent(pid(i as u64), m)); } }
            if !any { break; }
        }
    }
    None
}
thread_local! { static STATS: std::cell::RefCell<std::collections::BTreeMap<String, u64>> = Default::default(); }
fn short(m: &AnyMessage) -> String { format!("{m:?}").chars().take(90).collect() }

#[tokio::main(flavor = "current_thread")]
async fn main() {
    let seqs: u64 = if std::env::args().any(|a| a == "thorough") { 5000 } else { 300 };
    let accept = AnyMessage::Handshake(pallas_codec::minicbor::decode(&[0x83, 0x01, 0x0d, 0x84, 0x1a, 0x2d, 0x96, 0x4a, 0x09, 0xf4, 0x01, 0xf4]).expect("handshake accept decodes"));
    if std::env::var("C28_DEBUG").is_ok() {
        let mut b = InitiatorBehavior::default();
        let waker = futures::task::noop_waker(); let mut cx = std::task::Context::from_waker(&waker);
        let mut drain = |b: &mut InitiatorBehavior, tag: &str| { for _ in 0..100 { match b.poll_next_unpin(&mut cx) { std::task::Poll::Ready(Some(BehaviorOutput::InterfaceCommand(c))) => println!("  [{tag}] -> {}", format!("{c:?}").chars().take(100).collect::<String>()), std::task::Poll::Ready(Some(_)) => println!("  [{tag}] -> event"), _ => break } } };
        b.execute(InitiatorCommand::IncludePeer(pid(1))); drain(&mut b, "include");
        b.execute(InitiatorCommand::Housekeeping); drain(&mut b, "hk1");
        b.handle_io(InterfaceEvent::Connected(pid(1))); drain(&mut b, "connected");
        let propose = AnyMessage::Handshake(proto::handshake::Message::Propose(proto::handshake::n2n::VersionTable::v11_and_above(764824073)));
        b.handle_io(InterfaceEvent::Sent(pid(1), propose)); drain(&mut b, "sent propose");
        b.handle_io(InterfaceEvent::Recv(pid(1), vec![accept.clone()])); drain(&mut b, "recv accept");
        b.execute(InitiatorCommand::Housekeeping); drain(&mut b, "hk2");
        b.execute(InitiatorCommand::Housekeeping); drain(&mut b, "hk3");
        b.execute(InitiatorCommand::Housekeeping); drain(&mut b, "hk4");
        return;
    }
    let mut found: Vec<String> = Vec::new();
    for seed in 1..=seqs { if let Some(v) = run(seed, &accept) { if std::env::var("C28_STATS").is_ok() && found.len() < 3 { println!("found: ...{}", v.chars().rev().take(500).collect::<Vec<_>>().into_iter().rev().collect::<String>()); } found.push(v); if found.len() >= 2000 { break; } } }
    // one line per (protocol, emitted message kind): the shortest schedule each
    let mut by_kind: std::collections::BTreeMap<String, String> = Default::default();
    for v in found {
        let proto_name = ["handshake", "keep-alive", "peer-sharing", "chain-sync", "block-fetch"].iter().find(|k| v.contains(&format!("the {k} state machine"))).map(|k| k.replace('-', "_")).unwrap_or_else(|| "other".into());
        let in_state: String = v.split("state machine in state ").nth(1).map(|t| t.split(' ').next().unwrap_or("?").to_string()).unwrap_or_else(|| "?".into());
        let kind: String = v.split("the initiator emits ").nth(1).map(|t| t.split(|c: char| !c.is_alphanumeric()).filter(|x| !x.is_empty()).nth(1).unwrap_or("message").to_string()).unwrap_or_else(|| "responder".into());
        // what made the behaviour emit it: the last event of the schedule — a command (housekeeping included), a confirmation, a delivery or a connection event
        let trigger: String = v.split("[trigger=").nth(1).map(|t| t.split(']').next().unwrap_or("?").to_string()).unwrap_or_else(|| "?".into());
        let key = format!("C28.{proto_name}.{kind}_emitted_in_state_{in_state}_on_{trigger}");
        let e = by_kind.entry(key).or_insert_with(|| v.clone()); if v.len() < e.len() { *e = v; } }
    for (k, v) in &by_kind { println!("DEVIATION: {k} {v}"); }
    if std::env::var("C28_STATS").is_ok() { STATS.with(|st| println!("emitted: {:?}", st.borrow())); }
    println!("checked {} schedules of 200 steps with delayed confirmations against a conformant responder", seqs);
}
