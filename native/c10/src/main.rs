//! bounded(the three digest sizes 160 / 224 / 256; 12 byte strings of 0..300 bytes; every tag byte 0..=255; 6 CBOR-encodable values): every
//! wrapper of `Hasher` is Blake2b (cryptoxide, called directly here) of exactly the bytes the statement names — hash(b) of b; hash_tagged(b, t)
//! of t ‖ b; hash_cbor(x) of the encoding of x; hash_tagged_cbor(x, t) of t ‖ the encoding of x; incremental input in any split equals the
//! one-shot hash; the nonce derivations are the documented compositions. Exit 1 with the first failing (wrapper, size, input) if not.
use cryptoxide::{blake2b::Blake2b, digest::Digest};
use pallas_codec::minicbor;
use pallas_crypto::hash::{Hash, Hasher};

fn fail(msg: String) -> ! { println!("VIOLATED: {msg}"); std::process::exit(1) }
fn blake(bits: usize, data: &[u8]) -> Vec<u8> { let mut h = Blake2b::new(bits / 8); h.input(data); let mut out = vec![0u8; bits / 8]; h.result(&mut out); out }

macro_rules! size {
    ($bits:expr, $n:ident) => {{
        let inputs: Vec<Vec<u8>> = vec![vec![], vec![0], vec![0xff], b"abc".to_vec(), (0..23u8).collect(), (0..24u8).collect(), (0..64u8).collect(), (0..127u8).collect(), vec![0x18; 128], (0..=255u8).collect(), vec![7; 257], vec![0xa5; 300]];
        for b in &inputs {
            if Hasher::<$bits>::hash(b).as_ref() != blake($bits, b).as_slice() { fail(format!("Hasher::<{}>::hash of {} bytes is not Blake2b-{} of them", $bits, b.len(), $bits)); }
            $n += 1;
            for t in 0..=255u8 {
                let mut tb = vec![t]; tb.extend_from_slice(b);
                if Hasher::<$bits>::hash_tagged(b, t).as_ref() != blake($bits, &tb).as_slice() { fail(format!("Hasher::<{}>::hash_tagged({} bytes, tag {t}) is not Blake2b of tag ‖ bytes", $bits, b.len())); }
                $n += 1;
            }
            // incremental input, every split into two and a split into single bytes
            for cut in 0..=b.len().min(70) { let mut h = Hasher::<$bits>::new(); h.input(&b[..cut]); h.input(&b[cut..]); if h.finalize().as_ref() != blake($bits, b).as_slice() { fail(format!("Hasher::<{}>: input({cut} bytes) then input(the rest) of {} bytes differs from the one-shot hash", $bits, b.len())); } $n += 1; }
            let mut h = Hasher::<$bits>::new(); for x in b { h.input(&[*x]); } if h.finalize().as_ref() != blake($bits, b).as_slice() { fail(format!("Hasher::<{}>: byte-by-byte input of {} bytes differs from the one-shot hash", $bits, b.len())); }
        }
        macro_rules! cbor_value { ($v:expr) => {{
            let v = $v; let enc = minicbor::to_vec(&v).unwrap();
            if Hasher::<$bits>::hash_cbor(&v).as_ref() != blake($bits, &enc).as_slice() { fail(format!("Hasher::<{}>::hash_cbor({:?}) is not Blake2b of its CBOR encoding", $bits, v)); }
            $n += 1;
            for t in 0..=255u8 {
                let mut tb = vec![t]; tb.extend_from_slice(&enc);
                if Hasher::<$bits>::hash_tagged_cbor(&v, t).as_ref() != blake($bits, &tb).as_slice() { fail(format!("Hasher::<{}>::hash_tagged_cbor({:?}, tag {t}) is not Blake2b of tag ‖ CBOR encoding", $bits, v)); }
                $n += 1;
            }
        }} }
        cbor_value!(0u8); cbor_value!(1_000_000u64); cbor_value!((1_000_000u64, "pallas", vec![0xdeu8, 0xad, 0xbe, 0xef])); cbor_value!(vec![1u16, 2, 3]); cbor_value!((0u8, vec![0u8; 0])); cbor_value!("".to_string());
    }};
}

fn main() {
    let mut n = 0u64;
    size!(160, n); size!(224, n); size!(256, n);
    // ---- nonces ---------------------------------------------------------------------------------------------------------------------------------
    use pallas_crypto::nonce::{generate_epoch_nonce, generate_rolling_nonce};
    let h = |k: u8| -> Hash<32> { Hash::from([k; 32]) };
    for (a, b) in [(1u8, 2u8), (0, 0), (255, 7)] {
        let mut ab = vec![a; 32]; ab.extend_from_slice(&[b; 32]);
        if generate_epoch_nonce(h(a), h(b), None).as_ref() != blake(256, &ab).as_slice() { fail(format!("generate_epoch_nonce without entropy is not Blake2b-256 of candidate ‖ block hash")); }
        let mut e = blake(256, &ab); e.extend_from_slice(&[9u8; 5]);
        if generate_epoch_nonce(h(a), h(b), Some(&[9u8; 5])).as_ref() != blake(256, &e).as_slice() { fail(format!("generate_epoch_nonce with entropy is not Blake2b-256 of (Blake2b-256 of candidate ‖ block hash) ‖ entropy")); }
        for len in [32usize, 64] {
            let vrf = vec![b ^ 0x3c; len];
            let mut r = vec![a; 32]; r.extend_from_slice(&blake(256, &vrf));
            if generate_rolling_nonce(h(a), &vrf).as_ref() != blake(256, &r).as_slice() { fail(format!("generate_rolling_nonce ({len}-byte VRF output) is not Blake2b-256 of previous ‖ Blake2b-256 of the VRF output")); }
            n += 1;
        }
        n += 2;
    }
    println!("checked {n} digests against Blake2b called directly");
}
