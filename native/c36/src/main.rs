//! bounded(the Alonzo, Babbage and Conway transaction fixtures under /repo/test_data — with and without auxiliary data):
//! the size phase-1 validation measures (get_alonzo_comp_tx_size / get_babbage_tx_size / get_conway_tx_size) equals the
//! traversal size MultiEraTx::size of the same transaction. Exit 1 and print the first disagreeing fixture if not.

use pallas_traverse::{Era, MultiEraTx};
use pallas_validate::utils::{get_alonzo_comp_tx_size, get_babbage_tx_size, get_conway_tx_size};

fn main() {
    let dir = std::path::Path::new("/repo/test_data");
    let mut names: Vec<String> = std::fs::read_dir(dir).expect("test_data").filter_map(|e| e.ok())
        .map(|e| e.file_name().to_string_lossy().to_string()).filter(|n| n.ends_with(".tx")).collect();
    names.sort();
    let mut n = 0u64;
    for name in names {
        let era = if name.starts_with("alonzo") { Era::Alonzo } else if name.starts_with("babbage") { Era::Babbage } else if name.starts_with("conway") { Era::Conway } else { continue };
        let text = std::fs::read_to_string(dir.join(&name)).unwrap();
        let Ok(bytes) = hex::decode(text.trim()) else { continue };
        let Ok(mtx) = MultiEraTx::decode_for_era(era, &bytes) else { continue };
        let reference = mtx.size() as u64;
        let measured: Option<u64> = match &mtx {
            MultiEraTx::AlonzoCompatible(tx, _) => Some(get_alonzo_comp_tx_size(tx) as u64),
            MultiEraTx::Babbage(tx) => get_babbage_tx_size(tx).map(|x| x as u64),
            MultiEraTx::Conway(tx) => get_conway_tx_size(tx).map(|x| x as u64),
            _ => continue,
        };
        n += 1;
        if measured != Some(reference) {
            println!("VIOLATED: fixture {name} (auxiliary data present: {}): validation measures {:?} bytes, traversal size is {reference}", mtx.metadata().is_empty() == false, measured);
            std::process::exit(1);
        }

    }
    if n == 0 { eprintln!("no fixture could be decoded"); std::process::exit(2); }
    println!("checked {n} transaction fixtures: validation size equals traversal size");
}
