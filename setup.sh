#!/bin/sh
# offline setup: nothing is fetched. Creates scratch dirs, copies Cargo.lock into the harness crates and
# warms the verifier caches so quick checks start from a built dependency graph.
set -e
cd "$(dirname "$0")"
mkdir -p .build evidence replays
export CARGO_NET_OFFLINE=true
for d in kani/*/; do
  [ -f "$d/Cargo.toml" ] || continue
  cp /repo/Cargo.lock "$d/Cargo.lock" 2>/dev/null || true
done
# warm verus (first run is slower)
cat > .build/warm.rs <<'W'
use vstd::prelude::*;
verus! { proof fn warm() ensures 1 + 1 == 2int {} }
fn main() {}
W
(cd .build && verus warm.rs >/dev/null 2>&1 || true)
# pre-build kani harness crates (codegen only); failures here are not fatal — checks rebuild on demand
for d in kani/*/; do
  [ -f "$d/Cargo.toml" ] || continue
  n=$(basename "$d")
  (cd "$d" && timeout 1500 cargo kani --target-dir "$PWD/../../.build/kani-target/$n" --only-codegen >/dev/null 2>&1 || true)
done
# pre-build the native bounded stand-ins (plain cargo over the real crates); failures are not fatal — checks rebuild on demand
for d in native/*/; do
  [ -f "$d/Cargo.toml" ] || continue
  n=$(basename "$d")
  cp /repo/Cargo.lock "$d/Cargo.lock" 2>/dev/null || true
  (cd "$d" && timeout 1500 cargo build --offline --target-dir "$PWD/../../.build/native-target/all" >/dev/null 2>&1 || true)
done
echo setup done
