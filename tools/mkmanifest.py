#!/usr/bin/env python3
"""mkmanifest — regenerates /verif/MANIFEST.json from registry.json + not_applicable.json."""
import json
import os
V = os.path.dirname(os.path.dirname(os.path.abspath(__file__)))
reg = json.load(open(os.path.join(V, 'registry.json')))
na = json.load(open(os.path.join(V, 'not_applicable.json')))
hooks = json.load(open(os.path.join(V, 'hooks.json')))
checks = []
for pid in sorted(reg):
    s = reg[pid]
    checks.append(dict(
        property_id=pid,
        quick_cmd=f'./check {pid} --tier quick',
        thorough_cmd=f'./check {pid} --tier thorough',
        evidence_file=f'/verif/evidence/{pid}.json',
        replay_cmd_template=f'./check {pid} --replay {{path}}',
        engine=('verus+kani' if s.get('kani') and s.get('v_units') else ('verus' if s.get('v_units') else 'kani')) + ('+native-bounded' if s.get('native') else ''),
        level_claimed=dict(category=s.get('level', 'proof'), text=s['level_text'], design_ref=s.get('design_ref', f'DESIGN.md §3 {pid}')),
        level_note=s['level_note'],
        technique=s.get('technique', 'contract-based deductive verification (Verus contracts on mechanically extracted real functions; Kani harnesses on the compiled crate)'),
    ))
claimed = set(reg)
nal = [x for x in na if x['property_id'] not in claimed]
m = dict(
    version=1,
    setup_cmd='./setup.sh',
    hooks=hooks,
    engines=[
        dict(name='V', path='/verif/tools/rsx.py + /verif/tools/engine.py + /verif/contracts/*.vt',
             serves_properties=sorted(p for p in reg if reg[p].get('v_units')),
             kind_free_text='Verus: requires/ensures/invariants spliced onto functions extracted verbatim from /repo on every run; Z3 discharges every obligation, unbounded'),
        dict(name='K', path='/verif/kani/*',
             serves_properties=sorted(p for p in reg if reg[p].get('kani') or reg[p].get('cex')),
             kind_free_text='Kani/CBMC harnesses over the compiled real crates: complete (full symbolic domain, loop-free or width-bounded) or bounded stand-ins (labelled, not counted as proved); counterexample search for replay'),
        dict(name='N', path='/verif/native/*',
             serves_properties=sorted(p for p in reg if reg[p].get('native')),
             kind_free_text='bounded stand-ins only (plain cargo programs over the real crates enumerating a stated finite input space): run for functions neither Verus nor Kani can ingest, or as fallback when a Verus unit is undecided on the current tree; labelled bounded, reported under bounded_checks_not_counted, never counted as proved'),
    ],
    checks=checks,
    notes='Exit codes of ./check: 0 held, 1 violation, 2 undecided (tool limit / lost anchor — never an alarm). Known findings: /verif/known-findings.json. See DESIGN.md.',
    not_applicable=nal,
)
json.dump(m, open(os.path.join(V, 'MANIFEST.json'), 'w'), indent=1)
print('MANIFEST.json:', len(checks), 'checks,', len(nal), 'not applicable')
