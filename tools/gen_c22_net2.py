#!/usr/bin/env python3
"""gen_c22_net2 — instantiates contracts/C22_message_codecs.vt for the pallas-network2 stack (same contracts, other source files)."""
import os
V = os.path.dirname(os.path.dirname(os.path.abspath(__file__)))
s = open(os.path.join(V, 'contracts/C22_message_codecs.vt')).read()
s = s.replace('//@@ unit C22_message_codecs', '//@@ unit C22_message_codecs_net2')
rep = {
    'pallas-network/src/miniprotocols/common.rs': 'pallas-network2/src/protocol/common.rs',
    'pallas-network/src/miniprotocols/chainsync/protocol.rs': 'pallas-network2/src/protocol/chainsync.rs',
    'pallas-network/src/miniprotocols/chainsync/codec.rs': 'pallas-network2/src/protocol/chainsync.rs',
    'pallas-network/src/miniprotocols/keepalive/protocol.rs': 'pallas-network2/src/protocol/keepalive.rs',
    'pallas-network/src/miniprotocols/keepalive/codec.rs': 'pallas-network2/src/protocol/keepalive.rs',
    'pallas-network/src/miniprotocols/blockfetch/protocol.rs': 'pallas-network2/src/protocol/blockfetch.rs',
    'pallas-network/src/miniprotocols/blockfetch/codec.rs': 'pallas-network2/src/protocol/blockfetch.rs',
}
for a, b in rep.items():
    s = s.replace(a, b)
# network2's block-fetch Message has a different shape (tuple variants over type aliases): not instantiated from this template
# (network2's chain-sync Message and peer-sharing types also differ in shape: every section from block-fetch on is left to the pallas-network unit)
i0 = s.index('// =========================================================================================================\n// block-fetch:')
i1 = s.index('// ---- vacuity guard: canary')
s = s[:i0] + s[i1:]
s = s.replace('//@@ min-verified 69', '//@@ min-verified 35')
s = s.replace('[[C22.', '[[C22.net2.')
s = s.replace('// Contract unit for C22:', "// Contract unit for C22 (pallas-network2; generated from C22_message_codecs.vt by tools/gen_c22_net2.py — same contracts, the other stack's source files):")
open(os.path.join(V, 'contracts/C22_message_codecs_net2.vt'), 'w').write(s)
print('contracts/C22_message_codecs_net2.vt written')
