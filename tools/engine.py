#!/usr/bin/env python3
"""engine — runs contract units (Verus) and Kani harnesses against /repo's current tree, classifies the
outcome, writes replays and evidence.  See DESIGN.md §1–§2."""
import json
import os
import re
import shutil
import subprocess
import sys
import time

HERE = os.path.dirname(os.path.abspath(__file__))
VERIF = os.path.dirname(HERE)
sys.path.insert(0, HERE)
import rsx  # noqa: E402

REPO = os.environ.get('VERIF_REPO', '/repo')
BUILD = os.path.join(VERIF, '.build')
# runs against a scratch copy (VERIF_REPO=..., mutation sanity) must never overwrite the evidence / replays
# of the real tree: they go under .build/scratch instead
_SCRATCH = os.path.realpath(REPO) != '/repo'
REPLAYS = os.path.join(BUILD, 'scratch', 'replays') if _SCRATCH else os.path.join(VERIF, 'replays')
EVIDENCE = os.path.join(BUILD, 'scratch', 'evidence') if _SCRATCH else os.path.join(VERIF, 'evidence')
CONTRACTS = os.path.join(VERIF, 'contracts')
KANI_DIR = os.path.join(VERIF, 'kani')

ASSUME_RX = re.compile(r'external_body|assume_specification|\badmit\s*\(|\bassume\s*\(|\baxiom\b|external_type_specification|\bexternal\b')

RLIMIT_RX = re.compile(r'[Rr]esource limit|rlimit')


def sh(cmd, cwd=None, timeout=None, env=None):
    e = dict(os.environ)
    e['CARGO_NET_OFFLINE'] = 'true'
    if env:
        e.update(env)
    t0 = time.time()
    try:
        p = subprocess.run(cmd, cwd=cwd, env=e, capture_output=True, text=True, timeout=timeout)
        return p.returncode, p.stdout, p.stderr, time.time() - t0
    except subprocess.TimeoutExpired as ex:
        out = ex.stdout.decode() if isinstance(ex.stdout, bytes) else (ex.stdout or '')
        err = ex.stderr.decode() if isinstance(ex.stderr, bytes) else (ex.stderr or '')
        return 124, out, err, time.time() - t0


# --------------------------------------------------------------------------------------------------
# Engine V
# --------------------------------------------------------------------------------------------------

def scan_assumptions(text, mp):
    """mechanical scan of the generated unit for trusted constructs; returns one line per hit."""
    res = []
    lines = text.split('\n')
    for i, ln in enumerate(lines):
        s = ln.strip()
        if s.startswith('//'):
            continue
        if ASSUME_RX.search(s):
            # attach the next non-attribute line (the signature) for readability
            sig = ''
            for j in range(i, min(i + 6, len(lines))):
                t = lines[j].strip()
                if t and not t.startswith('#[') and not t.startswith('//'):
                    sig = t
                    break
            res.append(f'{s[:80]} :: {sig[:140]}')
    # de-duplicate preserving order
    seen = set()
    out = []
    for r in res:
        if r not in seen:
            seen.add(r)
            out.append(r)
    return out


def run_v_unit(name, tier='quick', seed=0, extra_args=None, _inline=None, _consts=None, _round=0):
    """Extract, splice, verify one unit. Returns a result dict; never raises for verification outcomes."""
    tmpl = os.path.join(CONTRACTS, name + '.vt')
    os.makedirs(BUILD, exist_ok=True)
    wd = os.path.join(BUILD, 'v', name)
    os.makedirs(wd, exist_ok=True)
    out_rs = os.path.join(wd, name + '.rs')
    res = dict(unit=name, engine='verus', status='ok', failures=[], undecided=[], verified=0, errors=0,
               functions=[], canaries=[], obligations_named=[], rewrites=[], assumptions=[], smt_ms=0,
               wall_s=0.0, per_function=[], cmd='')
    t0 = time.time()
    try:
        gen = rsx.build_unit(tmpl, REPO, inline=_inline, pull_consts=_consts)
    except rsx.ExtractError as ex:
        res['status'] = 'undecided'
        res['undecided'].append(f'extraction: {ex}')
        res['wall_s'] = time.time() - t0
        return res
    open(out_rs, 'w').write(gen['text'])
    mp = gen['map']
    meta = gen['meta']
    json.dump(dict(map=mp, meta=meta), open(out_rs + '.map.json', 'w'))
    res['functions'] = meta['functions']
    res['items'] = meta['items']
    res['canaries'] = meta['canaries']
    res['obligations_named'] = meta['obligations']
    res['rewrites'] = meta['rewrites']
    res['assumptions'] = scan_assumptions(gen['text'], mp)
    cmd = ['verus', out_rs, '--output-json', '--time', '--multiple-errors', '20', '--error-format=json',
           '--num-threads', '8']
    if tier == 'thorough':
        cmd += ['--rlimit', '30']
    if seed:
        cmd += ['--smt-option', f'smt.random_seed={seed % 1000}']
    if extra_args:
        cmd += extra_args
    res['cmd'] = ' '.join(cmd)
    rc, out, err, dt = sh(cmd, cwd=wd, timeout=1800)
    res['wall_s'] = time.time() - t0
    open(os.path.join(wd, 'verus.stdout'), 'w').write(out)
    open(os.path.join(wd, 'verus.stderr'), 'w').write(err)
    j = None
    try:
        j = json.loads(out)
    except Exception:
        pass
    diags = []
    for ln in err.split('\n'):
        ln = ln.strip()
        if not ln.startswith('{'):
            continue
        try:
            d = json.loads(ln)
        except Exception:
            continue
        if d.get('level') == 'error':
            diags.append(d)
    # a refactor may have moved code into a helper function the unit does not know: retry once with such helpers inlined at
    # their call sites (R13; only free functions of the unit's source files without early exits are eligible)
    unknown = set()
    for d in diags:
        mo = re.match(r'cannot find function `(\w+)` in this scope', d['message'])
        if mo:
            unknown.add(mo.group(1))
    unknown_c = set()
    for d in diags:
        mo = re.match(r'cannot find value `([A-Z][A-Z0-9_]*)` in this scope', d['message'])
        if mo:
            unknown_c.add(mo.group(1))
    # up to three rounds: a pulled helper may itself need a constant or another helper
    have_i, have_c = set(_inline or []), set(_consts or [])
    if ((unknown - have_i) or (unknown_c - have_c)) and _round < 3:
        return run_v_unit(name, tier, seed, extra_args, _inline=sorted(unknown | have_i), _consts=sorted(unknown_c | have_c), _round=_round + 1)
    if j is None or 'verification-results' not in j:
        res['status'] = 'undecided'
        msgs = [d['message'] for d in diags][:5]
        res['undecided'].append('verus produced no verification result (compile/tool error): ' + ' | '.join(msgs) + (err[-400:] if not msgs else ''))
        return res
    vr = j['verification-results']
    res['verified'] = vr.get('verified', 0)
    res['errors'] = vr.get('errors', 0)
    try:
        for mrec in j['times-ms']['smt']['smt-run-module-times']:
            for f in mrec.get('function-breakdown', []):
                res['per_function'].append(dict(function=f['function'], mode=f.get('mode:'), ms=f['time'],
                                                rlimit=f.get('rlimit'), success=f['success']))
        res['smt_ms'] = j['times-ms']['smt']['total']
    except Exception:
        pass
    if vr.get('encountered-vir-error') or (vr.get('encountered-error') and not vr.get('errors')):
        res['status'] = 'undecided'
        msgs = [d['message'] for d in diags if 'aborting' not in d['message']][:5]
        res['undecided'].append('verus rejected the unit before verification (unsupported construct or type error): ' + ' | '.join(msgs))
        return res
    canary_fns = {c['fn'] for c in meta['canaries']}
    canary_hit = set()
    for d in diags:
        msg = d['message']
        if msg.startswith('aborting due to'):
            continue
        spans = d.get('spans', [])
        prim = [s for s in spans if s.get('is_primary')] or spans
        if not prim:
            continue
        ln = prim[0]['line_start']
        ent = mp[ln - 1] if 0 < ln <= len(mp) else dict(kind='?', file='?', line=0, fn=None, ob=None)
        # the function the failure belongs to: use any span that falls in a fn block
        fn = ent.get('fn')
        if fn is None:
            for s in spans:
                l2 = s['line_start']
                if 0 < l2 <= len(mp) and mp[l2 - 1].get('fn'):
                    fn = mp[l2 - 1]['fn']
                    break
        where = []
        for s in spans:
            l2 = s['line_start']
            if 0 < l2 <= len(mp):
                e2 = mp[l2 - 1]
                t0 = (s.get('text') or [{}])[0]
                txt = t0.get('text', '')
                hl = txt[max(0, t0.get('highlight_start', 1) - 1):max(0, t0.get('highlight_end', 1) - 1)] if s['line_start'] == s['line_end'] else txt.strip()
                where.append(dict(gen_line=l2, kind=e2['kind'], file=e2['file'], line=e2['line'],
                                  label=s.get('label'), text=txt.strip()[:160], snippet=hl.strip()[:60], primary=bool(s.get('is_primary'))))
        if fn in canary_fns:
            canary_hit.add(fn)
            continue
        ob = ent.get('ob')
        kind = re.sub(r'[^a-z]+', '_', msg.lower()).strip('_')[:48]
        if not ob:
            # name by function + kind + real source location if any
            srcw = next((w for w in where if w['kind'] == 'src' and w.get('primary')), None) or next((w for w in where if w['kind'] == 'src'), None)
            loc = f"{srcw['file']}:{srcw['line']}" if srcw else f"{os.path.basename(ent.get('file') or '?')}:{ent.get('line')}"
            snip = f"[{srcw['snippet']}]" if srcw and srcw.get('snippet') else ''
            ob = f"{name}.{fn or 'unit'}.{kind}@{loc}{snip}"
        rec = dict(obligation=ob, fn=fn, message=msg, where=where, rendered=(d.get('rendered') or '')[:3000])
        if RLIMIT_RX.search(msg):
            res['undecided'].append(f'{ob}: {msg}')
        else:
            res['failures'].append(rec)
    missing = canary_fns - canary_hit
    if missing:
        res['status'] = 'undecided'
        res['undecided'].append(f'vacuity guard: canary function(s) {sorted(missing)} were NOT rejected by the verifier')
        return res
    # vacuity floor
    if res['verified'] < meta['min_verified'] and not res['failures']:
        res['status'] = 'undecided'
        res['undecided'].append(f"vacuity guard: only {res['verified']} verification units, floor is {meta['min_verified']}")
        return res
    pulled = [r for r in meta['rewrites'] if r.get('rule') == 'R13' and 'not inlinable' in r.get('what', '')]
    if res['failures'] and pulled:
        # R13d: a helper the unit did not know was pulled in WITHOUT a contract. If everything verifies, the refactor is harmless and the unit is decided.
        # If something fails, the missing contract may be the reason (a caller cannot use what the helper establishes, the helper is checked for arguments
        # its callers never pass): not a verdict on the code — undecided, and the stand-in behind the unit decides
        names = sorted({r['fn'] for r in pulled})
        res['undecided'].append(f"helper function(s) {names} introduced by a refactor were pulled into the unit without a contract; {len(res['failures'])} obligation(s) "
                                f"do not verify with them as they stand (first: {res['failures'][0]['obligation'][:140]}) — not a verdict")
        res['failures'] = []
    if res['failures']:
        res['status'] = 'violation'
    elif res['undecided']:
        res['status'] = 'undecided'
    # errors that verus counted but we could not attribute
    n_canary_errs = len(canary_hit)
    if res['status'] == 'ok' and res['errors'] > n_canary_errs and not res['failures']:
        # multiple canary clause failures are possible; only worry if a non-canary function failed
        bad = [f for f in res['per_function'] if not f['success'] and f['function'].split('::')[-1] not in canary_fns]
        if bad:
            res['status'] = 'undecided'
            res['undecided'].append(f'unattributed verifier errors in {[b["function"] for b in bad]}')
    return res


# --------------------------------------------------------------------------------------------------
# Engine K
# --------------------------------------------------------------------------------------------------

def kani_crate_dir(crate):
    return os.path.join(KANI_DIR, crate)


def prepare_kani_crate(crate):
    d = kani_crate_dir(crate)
    lock = os.path.join(REPO, 'Cargo.lock')
    dst = os.path.join(d, 'Cargo.lock')
    if os.path.exists(lock) and not os.path.exists(dst):
        shutil.copy(lock, dst)
    return d


KANI_SUMMARY = re.compile(r'\*\* (\d+) of (\d+) failed')


def run_k_harness(crate, harness, label, flags=None, timeout=900, playback=False):
    """label: 'complete' | 'bounded(<what>)'. Returns result dict."""
    d = prepare_kani_crate(crate)
    tgt = os.path.join(BUILD, 'kani-target', crate)
    os.makedirs(tgt, exist_ok=True)
    cmd = ['cargo', 'kani', '--target-dir', tgt, '--harness', harness] + (flags or [])
    if playback:
        cmd += ['-Z', 'concrete-playback', '--concrete-playback=print']
    res = dict(engine='kani', crate=crate, harness=harness, label=label, cmd=' '.join(cmd), status='ok',
               checks=0, failed=0, failed_checks=[], undecided=[], wall_s=0.0, verification_s=None, playback=None)
    rc, out, err, dt = sh(cmd, cwd=d, timeout=timeout)
    res['wall_s'] = dt
    logd = os.path.join(BUILD, 'k', crate)
    os.makedirs(logd, exist_ok=True)
    open(os.path.join(logd, harness + '.log'), 'w').write(out + '\n--- stderr ---\n' + err)
    if rc == 124:
        res['status'] = 'undecided'
        res['undecided'].append(f'kani timeout after {timeout}s')
        return res
    m = KANI_SUMMARY.search(out)
    mt = re.search(r'Verification Time: ([0-9.]+)s', out)
    if mt:
        res['verification_s'] = float(mt.group(1))
    if 'VERIFICATION:- SUCCESSFUL' in out:
        res['status'] = 'ok'
        if m:
            res['failed'], res['checks'] = int(m.group(1)), int(m.group(2))
        # cover checks: make sure every cover was satisfied (reachability guard)
        unsat = re.findall(r'Status: (UNSATISFIABLE|UNREACHABLE)\s*\n\s*- Description: "([^"]*)"', out)
        mc = re.search(r'\*\* (\d+) of (\d+) cover properties satisfied', out)
        if mc and int(mc.group(1)) != int(mc.group(2)):
            res['status'] = 'undecided'
            res['undecided'].append(f'vacuity guard: only {mc.group(1)} of {mc.group(2)} cover properties satisfied')
        return res
    if 'VERIFICATION:- FAILED' in out:
        if m:
            res['failed'], res['checks'] = int(m.group(1)), int(m.group(2))
        fails = re.findall(r'Failed Checks: ([^\n]*)\n\s*File: "([^"]*)", line (\d+)', out)
        res['failed_checks'] = [dict(description=a, file=b, line=int(c)) for a, b, c in fails]
        # unwinding assertion failures mean the bound was too small: undecided, not a violation
        real = [f for f in res['failed_checks'] if 'unwinding assertion' not in f['description']]
        unsupported = [f for f in real if 'not currently supported' in f['description'] or 'unsupported' in f['description'].lower()]
        if unsupported or (res['failed_checks'] and not real):
            res['status'] = 'undecided'
            res['undecided'].append('kani: unwinding bound too small or unsupported construct: ' + '; '.join(f['description'] for f in res['failed_checks'][:3]))
            return res
        res['status'] = 'violation'
        if playback:
            mp = re.search(r'Concrete playback unit test for `[^`]*`:\s*```(.*?)```', out, re.S)
            if mp:
                res['playback'] = mp.group(1).strip()
        return res
    res['status'] = 'undecided'
    res['undecided'].append('kani did not reach a verdict (build or tool error): ' + (err.strip().split('\n')[-1] if err.strip() else out[-300:]))
    return res



# --------------------------------------------------------------------------------------------------
# Engine N — native bounded stand-ins (plain cargo programs over the real crates; labelled bounded, never counted as proved)
# --------------------------------------------------------------------------------------------------

NATIVE_DIR = os.path.join(VERIF, 'native')


def run_native(name, label, args=None, timeout=900):
    """builds /verif/native/<name> against /repo's current tree and runs it: exit 0 = held on the whole stated domain,
    exit 1 = a concrete failing value was found (printed), anything else = undecided."""
    d = os.path.join(NATIVE_DIR, name)
    tgt = os.path.join(BUILD, 'native-target', 'all')   # one target dir: the stand-ins share the compiled pallas crates
    os.makedirs(tgt, exist_ok=True)
    lock = os.path.join(REPO, 'Cargo.lock')
    if os.path.exists(lock) and not os.path.exists(os.path.join(d, 'Cargo.lock')):
        shutil.copy(lock, os.path.join(d, 'Cargo.lock'))
    res = dict(engine='native', crate=name, harness=name, label=label, cmd=f'cargo run --offline (native/{name}) ' + ' '.join(args or []),
               status='ok', checks=0, failed=0, failed_checks=[], undecided=[], wall_s=0.0, verification_s=None, playback=None)
    rc, out, err, dt = sh(['cargo', 'build', '--offline', '--target-dir', tgt], cwd=d, timeout=timeout)
    if rc != 0:
        res['status'] = 'undecided'
        res['undecided'].append('native stand-in does not build against the current tree: ' + (err.strip().split('\n')[-1] if err.strip() else 'build error'))
        res['wall_s'] = dt
        return res
    binname = None
    for ln in open(os.path.join(d, 'Cargo.toml')):
        mo = re.match(r'\s*name\s*=\s*"([^"]+)"', ln)
        if mo:
            binname = mo.group(1)
            break
    exe = os.path.join(tgt, 'debug', binname)
    rc2, out2, err2, dt2 = sh([exe] + (args or []), cwd=d, timeout=timeout)
    res['wall_s'] = dt + dt2
    res['verification_s'] = round(dt2, 2)
    logd = os.path.join(BUILD, 'k', 'native')
    os.makedirs(logd, exist_ok=True)
    open(os.path.join(logd, name + '.log'), 'w').write(out2 + '\n--- stderr ---\n' + err2)
    mo = re.search(r'checked (\d+)', out2)
    if mo:
        res['checks'] = int(mo.group(1))
    # a stand-in may name individual deviations (`DEVIATION: <obligation> <what>`) and carry on: each is matched against the known findings on its own,
    # so that a listed one is reported as such and any other one is a violation
    res['deviations'] = [(mo2.group(1), mo2.group(2)) for mo2 in re.finditer(r'^DEVIATION: (\S+) (.*)$', out2, re.M)]
    if rc2 == 0:
        return res
    if rc2 == 1 and 'VIOLATED' in out2:
        res['status'] = 'violation'
        res['failed'] = 1
        res['failed_checks'] = [dict(description=ln.strip(), file=f'native/{name}', line=0) for ln in out2.split('\n') if ln.strip()][:6]
        res['playback'] = '\n'.join(ln for ln in out2.split('\n') if ln.strip())[:2000]
        return res
    res['status'] = 'undecided'
    res['undecided'].append(f'native stand-in exited with {rc2}: ' + (err2.strip().split('\n')[-1] if err2.strip() else out2[-200:]))
    return res

# --------------------------------------------------------------------------------------------------
# known findings
# --------------------------------------------------------------------------------------------------

def load_findings():
    p = os.path.join(VERIF, 'known-findings.json')
    if not os.path.exists(p):
        return []
    return json.load(open(p)).get('findings', [])


def match_finding(findings, prop, obligation):
    for f in findings:
        if f.get('status') != 'open' or f.get('property') != prop:
            continue
        if f.get('obligation') == obligation:
            return f
        if f.get('obligation_regex') and re.search(f['obligation_regex'], obligation):
            return f
    return None
