#!/usr/bin/env python3
"""validate MANIFEST.json and every evidence file: schema, and for proof-level records that the run was a
quiet one (discharged == obligations, no violations, nothing undecided) — a record written by a failing or
scratch-copy run must not be committed."""
import json, sys, glob, os
import jsonschema
jsonschema.validate(json.load(open('/verif/MANIFEST.json')), json.load(open('/root/.vp/MANIFEST.schema.json')))
print('manifest valid')
sch = json.load(open('/root/.vp/EVIDENCE.schema.json'))
claimed = {c['property_id'] for c in json.load(open('/verif/MANIFEST.json'))['checks']}
bad = 0
have = set()
for f in sorted(glob.glob('/verif/evidence/*.json')):
    e = json.load(open(f))
    jsonschema.validate(e, sch)
    c = e['coverage']
    have.add(e['property_id'])
    probs = []
    if os.path.basename(f) != e['property_id'] + '.json':
        probs.append('file name != property_id')
    if e['level'] == 'proof' and c.get('obligations') != c.get('discharged'):
        probs.append(f"discharged ({c.get('discharged')}) != obligations ({c.get('obligations')})")
    if e.get('violations'):
        probs.append(f"violations={e['violations']}")
    if c.get('undecided'):
        probs.append(f"undecided={c['undecided']}")
    if probs:
        bad += 1
        print('evidence NOT a quiet record', f, '; '.join(probs))
    else:
        print('evidence valid', f)
# stale evidence: a unit template, an include, a native stand-in or a tool changed after the property's evidence was written -> the check
# must be re-run before committing (an unfinished proof was once committed this way: C34, round 6)
reg = json.load(open('/verif/registry.json'))
tools_m = max(os.path.getmtime(x) for x in ['/verif/tools/rsx.py', '/verif/tools/engine.py', '/verif/tools/scans.py', '/verif/check'])
incs_m = max([os.path.getmtime(x) for x in glob.glob('/verif/contracts/*.inc')] + [0])
for pid, c in reg.items():
    ev = f'/verif/evidence/{pid}.json'
    if not os.path.exists(ev):
        continue
    em = os.path.getmtime(ev)
    srcs = [f'/verif/contracts/{u}.vt' for u in c.get('v_units', [])]
    srcs += [f'/verif/native/{n["name"]}/src/main.rs' for n in c.get('native', [])] + [f'/verif/native/{n["name"]}/Cargo.toml' for n in c.get('native', [])]
    newer = [x for x in srcs if os.path.exists(x) and os.path.getmtime(x) > em + 1]
    if any(open(x).read().find('//@@ include') >= 0 for x in srcs if x.endswith('.vt') and os.path.exists(x)) and incs_m > em + 1:
        newer.append('contracts/*.inc')
    if tools_m > em + 1:
        newer.append('tools/rsx.py or engine.py')
    if newer:
        bad += 1
        print('evidence STALE for', pid, '- changed since it was written:', ', '.join(os.path.relpath(x, '/verif') for x in newer), '-> re-run ./check', pid)
for p in sorted(claimed - have):
    bad += 1
    print('evidence missing for claimed property', p)
sys.exit(1 if bad else 0)
