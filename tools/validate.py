#!/usr/bin/env python3
"""validate MANIFEST.json and every evidence file: schema, and for proof-level records that the run was a
quiet one (discharged == obligations, no violations, nothing undecided) — a record written by a failing or
scratch-copy run must not be committed."""
import json, sys, glob, os
import jsonschema
jsonschema.validate(json.load(open('/verif/MANIFEST.json')), json.load(open('/root/.vp/MANIFEST.schema.json')))
print('manifest valid')
sch = json.load(open('/root/.vp/EVIDENCE.schema.json'))
claimed = {c['property_id'] for c in json.load(open('/verif/MANIFEST.json'))['checks']}
bad = 0
have = set()
for f in sorted(glob.glob('/verif/evidence/*.json')):
    e = json.load(open(f))
    jsonschema.validate(e, sch)
    c = e['coverage']
    have.add(e['property_id'])
    probs = []
    if os.path.basename(f) != e['property_id'] + '.json':
        probs.append('file name != property_id')
    if e['level'] == 'proof' and c.get('obligations') != c.get('discharged'):
        probs.append(f"discharged ({c.get('discharged')}) != obligations ({c.get('obligations')})")
    if e.get('violations'):
        probs.append(f"violations={e['violations']}")
    if c.get('undecided'):
        probs.append(f"undecided={c['undecided']}")
    if probs:
        bad += 1
        print('evidence NOT a quiet record', f, '; '.join(probs))
    else:
        print('evidence valid', f)
for p in sorted(claimed - have):
    bad += 1
    print('evidence missing for claimed property', p)
sys.exit(1 if bad else 0)
