#!/usr/bin/env python3
"""archive a seeded change produced by a sub-agent: tools/archive_seed.py <src out dir> <caught:true|false> <detail>"""
import json, os, shutil, sys
src, caught, detail = sys.argv[1], sys.argv[2] == 'true', sys.argv[3]
m = json.load(open(os.path.join(src, 'meta.json')))
name = f"{m['property']}-{m['name']}"
dst = os.path.join('/verif/seeded', name)
os.makedirs(dst, exist_ok=True)
for f in os.listdir(src):
    if f == 'meta.json' or os.path.getsize(os.path.join(src, f)) > 200000: continue
    shutil.copy(os.path.join(src, f), os.path.join(dst, f))
m['caught_by_check'] = caught
m['detail'] = detail
m['round'] = int(os.environ.get('SEED_ROUND', '6'))
json.dump(m, open(os.path.join(dst, 'meta.json'), 'w'), indent=1)
print(dst)
