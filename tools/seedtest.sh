#!/bin/bash
# seedtest.sh <ID> <crate> <demo-test-name> [extra check ids...]
# 1. confirms the seeded change in its worktree /tmp/wt/<ID>: demo fails with the patch, passes without, crate tests pass with it
# 2. applies /tmp/seed/<ID>/patch.diff to /repo, runs ./check <ID> (and extra ids), then reverts /repo
ID=$1; CRATE=$2; DEMO=$3; shift 3
WT=/tmp/wt/$ID
cd $WT || exit 9
echo "== demo WITH patch (expect failure)"
cargo test -p $CRATE --offline --test $DEMO 2>&1 | grep -E "^test result|panicked|FAILED" | head -5
echo "== existing tests WITH patch (expect ok)"
cargo test -p $CRATE --offline 2>&1 | grep -E "^test result" | awk '{p+=$4; f+=$6} END {print "passed",p,"failed",f}'
git apply -R /tmp/seed/$ID/patch.diff
echo "== demo WITHOUT patch (expect ok)"
cargo test -p $CRATE --offline --test $DEMO 2>&1 | grep -E "^test result|panicked|FAILED" | head -5
git apply /tmp/seed/$ID/patch.diff
cd /repo && git apply --check /tmp/seed/$ID/patch.diff || { echo "patch does not apply to /repo"; exit 8; }
git apply /tmp/seed/$ID/patch.diff
cd /verif
P=${ID%%[a-z]*}
for c in $P "$@"; do echo "== ./check $c on the seeded tree"; ./check $c | cut -c1-300; echo "exit=${PIPESTATUS[0]}"; done
git -C /repo checkout -- .
git -C /repo status --short | head -3
echo "== reverted; ./check $P on the clean tree:"; ./check $P | tail -1
