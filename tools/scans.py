#!/usr/bin/env python3
"""scans — mechanical source scans that close representation-invariant arguments (construction sites)."""
import os
import re
import sys

sys.path.insert(0, os.path.dirname(os.path.abspath(__file__)))
import rsx  # noqa: E402


def scan_c04_constructions(repo):
    """C04: the private tuple field of PositiveCoin / NonZeroInt is only ever constructed inside the checked
    `try_from` and `decode` functions of pallas-codec/src/utils.rs, the field stays private, and no derive
    generates an unchecked CBOR decoder. One obligation per construction site / declaration."""
    rel = 'pallas-codec/src/utils.rs'
    res = dict(name='c04_construction_sites', checks=0, failures=[], undecided=[], summary='')
    p = os.path.join(repo, rel)
    if not os.path.exists(p):
        res['undecided'].append(f'{rel} missing')
        return res
    src = open(p).read()
    m = rsx.mask(src)
    sites = []
    for ty in ('PositiveCoin', 'NonZeroInt'):
        decl = re.search(r'pub struct %s\(([^)]*)\);' % ty, m)
        res['checks'] += 1
        if not decl:
            res['undecided'].append(f'declaration of {ty} not found (anchor lost)')
            continue
        if 'pub' in decl.group(1):
            res['failures'].append(dict(obligation=f'C04.scan.{ty}.field_private', detail=f'{ty} field is public: any code can build a zero value',
                                        failing_input=f'{ty}(0)'))
        # derive list just above the declaration
        pre = src[max(0, decl.start() - 400):decl.start()]
        dm = re.findall(r'#\[derive\(([^\]]*)\)\]', pre, flags=re.S)
        derives = ','.join(dm[-1:]) if dm else ''
        res['checks'] += 1
        if re.search(r'\bDecode\b', derives):
            res['failures'].append(dict(obligation=f'C04.scan.{ty}.no_derived_decode', detail=f'{ty} derives minicbor Decode (transparent): zero is accepted',
                                        failing_input='CBOR 0x00'))
        # construction sites: `Ty(` anywhere, `Self(` inside impl blocks for Ty
        for mo in re.finditer(r'\b%s\(' % ty, m):
            if m[max(0, mo.start() - 11):mo.start()].rstrip().endswith('struct'):
                continue
            sites.append((ty, mo.start()))
        for imo in re.finditer(r'\bimpl\b[^{;]*\bfor\s+%s\b[^{;]*\{' % ty, m):
            end = rsx.match_brace(m, imo.end() - 1)
            for mo in re.finditer(r'\bSelf\(', m[imo.end():end]):
                sites.append((ty, imo.end() + mo.start()))
    for ty, off in sites:
        res['checks'] += 1
        # enclosing fn name
        fns = [mo for mo in re.finditer(r'\bfn\s+(\w+)', m[:off])]
        fn = fns[-1].group(1) if fns else '?'
        body_start = fns[-1].start() if fns else 0
        seg = m[body_start:off]
        line = rsx.line_of(src, off)
        guarded = re.search(r'if\s+\w+\s*==\s*0\s*\{\s*return\s+Err', seg) is not None
        if fn not in ('try_from', 'decode') or not guarded:
            res['failures'].append(dict(obligation=f'C04.scan.{ty}.construction@{fn}',
                                        detail=f'{rel}:{line}: {ty} constructed in `{fn}` without a preceding zero check',
                                        failing_input=f'{fn}(0)'))
    res['summary'] = f'{len(sites)} construction sites of the private field, all inside checked try_from/decode' if not res['failures'] else 'unchecked construction found'
    return res
