#!/usr/bin/env python3
"""scans — mechanical source scans that close representation-invariant arguments (construction sites)."""
import os
import re
import sys

sys.path.insert(0, os.path.dirname(os.path.abspath(__file__)))
import rsx  # noqa: E402
