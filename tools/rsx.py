#!/usr/bin/env python3
"""rsx — mechanical extraction of real Rust items from /repo and splicing of contract overlays.

The verified text is the text that runs: function signatures and bodies are copied byte-for-byte from
the repository source; only the rewrite rules declared in the unit template (each tagged with a rule id
from DESIGN.md §1.3) are applied, and each application is logged. Contracts (requires/ensures, loop
invariants, ghost hints) come from the template and are *inserted*, never substituted for code.

Template directives (lines starting with //@@):

  //@@ unit <name>
  //@@ property <ID> [<ID> ...]
  //@@ min-verified <n>                      vacuity floor for Verus' "verified" count
  //@@ fn <relpath> | <ctx-regex or -> | <name> [| key=value ...]
        keys: nth=<k>  ret=<ident>  rename=<new>  canary=1  vis=keep  sigonly=1 (real signature, assumed contract, no body)
      //@@ rw <RuleId> <delim>regex<delim>replacement<delim> [min=<n>]
      //@@ spec
          requires ...,
          ensures
              [[OB.NAME]] clause,
      //@@ loop <k>
          invariant ..., decreases ...
      //@@ at before|after `anchor text` [#k]
          proof { ... }
  //@@ end
  //@@ item <relpath> | <kind> | <Name> [| key=value]     struct/enum/const/static/type/impl(header-regex)
      //@@ rw ...
  //@@ end

Everything else in the template is copied verbatim (ghost code, spec fns, lemmas, assumed interfaces).
"""
import hashlib
import json
import os
import re
import sys


class ExtractError(Exception):
    """Lost anchor / unsupported shape: the run is *undecided* (exit 2), never a violation."""


# --------------------------------------------------------------------------------------------------
# masking: same-length copy of the source with comments / string / char literal contents blanked
# --------------------------------------------------------------------------------------------------

def mask(src: str) -> str:
    out = list(src)
    n = len(src)
    i = 0

    def blank(a, b):
        for k in range(a, b):
            if out[k] != '\n':
                out[k] = ' '

    while i < n:
        c = src[i]
        if c == '/' and i + 1 < n and src[i + 1] == '/':
            j = src.find('\n', i)
            if j < 0:
                j = n
            blank(i, j)
            i = j
        elif c == '/' and i + 1 < n and src[i + 1] == '*':
            depth = 1
            j = i + 2
            while j < n and depth > 0:
                if src.startswith('/*', j):
                    depth += 1
                    j += 2
                elif src.startswith('*/', j):
                    depth -= 1
                    j += 2
                else:
                    j += 1
            blank(i, j)
            i = j
        elif c == '"' or (c in 'br' and _is_str_start(src, i)):
            j = _skip_string(src, i)
            # keep the delimiters' first and last char so that token boundaries survive
            blank(i + 1, j - 1)
            out[i] = '"'
            out[j - 1] = '"'
            i = j
        elif c == "'":
            j = _char_lit_end(src, i)
            if j > 0:
                blank(i + 1, j - 1)
                i = j
            else:
                i += 1
        else:
            i += 1
    return ''.join(out)


def _is_str_start(src, i):
    # b"..", r"..", r#".."#, br"..", br#".."#  — and not part of an identifier
    if i > 0 and (src[i - 1].isalnum() or src[i - 1] == '_'):
        return False
    m = re.match(r'(b?r#*"|b")', src[i:i + 12])
    return bool(m)


def _skip_string(src, i):
    n = len(src)
    m = re.match(r'b?r(#*)"', src[i:i + 12])
    if m:
        hashes = m.group(1)
        close = '"' + hashes
        j = src.find(close, i + len(m.group(0)))
        if j < 0:
            return n
        return j + len(close)
    if src[i] == 'b':
        i += 1
    j = i + 1
    while j < n:
        if src[j] == '\\':
            j += 2
        elif src[j] == '"':
            return j + 1
        else:
            j += 1
    return n


def _char_lit_end(src, i):
    """if src[i] starts a char literal return the index after it, else -1 (lifetime)."""
    n = len(src)
    if i + 1 >= n:
        return -1
    if src[i + 1] == '\\':
        j = i + 2
        while j < n and src[j] != "'":
            j += 1
        # '\'' : the quote right after the backslash is escaped
        if src[i + 2] == "'" and j == i + 2:
            j = src.find("'", i + 3)
        return j + 1 if j < n else -1
    if i + 2 < n and src[i + 2] == "'":
        return i + 3
    return -1


def split_chains(text: str, recv: str, rwlog) -> str:
    """R15: a chain of `?`-propagating builder calls on one receiver — `e.a(x)?.b(y)?.c(z)?` — is split into the sequence it
    abbreviates: `{ e.a(x)?; e.b(y)?; e.c(z)? }` (every minicbor Encoder method returns the encoder it was called on)."""
    n = 0
    pos = 0
    while True:
        mm = mask(text)
        mo = re.compile(r'(?<![\w\.])' + re.escape(recv) + r'\.(\w+)\(').search(mm, pos)
        if not mo:
            break
        calls = []
        i = mo.start()
        j = mo.end() - 1
        start = i
        cur_name = mo.group(1)
        while True:
            cp = match_brace(mm, j) if mm[j] == '{' else None
            # match parentheses
            depth = 0; k = j
            while k < len(mm):
                if mm[k] == '(': depth += 1
                elif mm[k] == ')':
                    depth -= 1
                    if depth == 0: break
                k += 1
            args = text[j + 1:k]
            calls.append((cur_name, args))
            m2 = re.compile(r'\s*\?\s*\.\s*(\w+)\(').match(mm, k + 1)
            if not m2:
                end = k + 1
                break
            cur_name = m2.group(1)
            j = m2.end() - 1
        if len(calls) >= 2:
            # the chain must end with `?` for the split to be type-preserving in statement position
            m3 = re.compile(r'\s*\?').match(mm, end)
            tail_q = bool(m3)
            end2 = m3.end() if m3 else end
            parts = [f"{recv}.{nm}({ar})?" for nm, ar in calls[:-1]] + [f"{recv}.{calls[-1][0]}({calls[-1][1]})" + ("?" if tail_q else "")]
            new = "{ " + "; ".join(parts) + " }"
            text = text[:start] + new + text[end2:]
            pos = start + len(new)
            n += 1
        else:
            pos = end
    if n:
        rwlog.append(dict(rule='R15', what=f'`{recv}.a(..)?.b(..)?` builder chains split into the statement sequence they abbreviate', applied=n))
    return text

def desugar_while_let(text: str, rwlog) -> str:
    """R5e: `while let PAT = EXPR { BODY }` -> `loop { match EXPR { PAT => { BODY } _ => { break; } } }` (the desugaring the Rust
    reference gives), so that the fact established by the last, failing evaluation of EXPR is available after the loop."""
    n = 0
    while True:
        mm = mask(text)
        mo = re.search(r'\bwhile\s+let\s+', mm)
        if not mo:
            break
        # find the `=` that ends the pattern (depth 0) and the `{` that opens the body (depth 0 after the expression)
        i = mo.end(); depth = 0; eq = None
        while i < len(mm):
            c = mm[i]
            if c in '([{<' and not (c == '<' and False): depth += (c != '<')
            elif c in ')]}': depth -= 1
            elif c == '=' and depth == 0 and mm[i + 1] != '=' and mm[i - 1] not in '=!<>':
                eq = i; break
            i += 1
        if eq is None:
            break
        j = eq + 1; depth = 0; ob = None
        while j < len(mm):
            c = mm[j]
            if c in '([': depth += 1
            elif c in ')]': depth -= 1
            elif c == '{' and depth == 0:
                ob = j; break
            j += 1
        if ob is None:
            break
        cb = match_brace(mm, ob)
        pat = text[mo.end():eq].strip(); expr = text[eq + 1:ob].strip(); body = text[ob + 1:cb]
        new = f"loop {{ match {expr} {{ {pat} => {{{body}}} _ => {{ break; }} }} }}"
        text = text[:mo.start()] + new + text[cb + 1:]
        n += 1
    if n:
        rwlog.append(dict(rule='R5e', what='`while let P = E { .. }` desugared to `loop { match E { P => { .. } _ => break } }`', applied=n))
    return text

def desugar_enumerate(text: str, rwlog) -> str:
    """R5d: `for (i, x) in E.iter().enumerate() { BODY }` -> `let mut i: usize = 0; while i < E.len() { let x = &E[i]; { BODY } i += 1; }`
    (the meaning of enumerate over a slice iterator). Refused (left as is, so Verus reports the unsupported construct and the unit is
    undecided) when BODY contains `continue`, which would skip the increment."""
    n = 0
    while True:
        mm = mask(text)
        mo = re.search(r'\bfor\s*\(\s*(\w+)\s*,\s*(\w+)\s*\)\s*in\s+([\w\.]+?)\.iter\(\)\.enumerate\(\)\s*\{', mm)
        if not mo:
            break
        ob = mo.end() - 1
        cb = match_brace(mm, ob)
        body = text[ob + 1:cb]
        if re.search(r'\bcontinue\b', mask(body)):
            break
        i, x, e = mo.group(1), mo.group(2), mo.group(3)
        new = f"let mut {i}: usize = 0; while {i} < {e}.len() {{ let {x} = &{e}[{i}]; {{{body}}} {i} += 1; }}"
        text = text[:mo.start()] + new + text[cb + 1:]
        n += 1
    if n:
        rwlog.append(dict(rule='R5d', what='`for (i, x) in s.iter().enumerate() { .. }` desugared to the indexed while loop', applied=n))
    return text

def nest_let_chains(text: str, rwlog: list, name: str) -> str:
    """R17 (always on): `if let P = E && C && let Q = F { B }` (a let chain, Rust 2024; Verus has no let expressions) without an
    `else` is the nesting `if let P = E { if C { if let Q = F { B } } }` — same evaluation order, same short-circuit, same scope of
    the bindings. With an `else` the nesting would duplicate the branch: refused (undecided)."""
    n = 0
    pos = 0
    while True:
        m = mask(text)
        mo = None
        for c in re.finditer(r'\bif\b', m):
            if c.start() < pos:
                continue
            # condition: up to the first `{` outside brackets
            i = c.end()
            depth = 0
            while i < len(m):
                ch = m[i]
                if ch in '([':
                    depth += 1
                elif ch in ')]':
                    depth -= 1
                elif ch == '{' and depth == 0:
                    break
                i += 1
            if i >= len(m):
                break
            cond = m[c.end():i]
            if not re.search(r'\blet\b', cond):
                continue
            # split at top-level &&
            parts, d, st, j = [], 0, 0, 0
            while j < len(cond):
                ch = cond[j]
                if ch in '([{':
                    d += 1
                elif ch in ')]}':
                    d -= 1
                elif d == 0 and cond.startswith('&&', j):
                    parts.append((st, j)); st = j + 2; j += 1
                j += 1
            parts.append((st, len(cond)))
            if len(parts) < 2:
                continue
            mo = (c, i, parts)
            break
        if mo is None:
            break
        c, ob, parts = mo
        cb = match_brace(m, ob)
        if re.match(r'\s*else\b', m[cb + 1:]):
            raise ExtractError(f'{name}: a let chain with an `else` branch — R17 does not apply (unsupported construct)')
        if re.search(r'\belse\s*$', m[:c.start()]):
            raise ExtractError(f'{name}: a let chain in an `else if` — R17 does not apply (unsupported construct)')
        base = c.end()
        conds = [text[base + a:base + b].strip() for a, b in parts]
        new = ''.join(f'if {cd} {{ ' for cd in conds[:-1]) + f'if {conds[-1]} ' + text[ob:cb + 1] + ' }' * (len(conds) - 1)
        # keep the line count: the condition's newlines go after the rewritten statement
        lost = text[c.start():cb + 1].count('\n') - new.count('\n')
        text = text[:c.start()] + new + '\n' * max(lost, 0) + text[cb + 1:]
        pos = c.start() + 2
        n += 1
    if n:
        rwlog.append(dict(rule='R17', what='let chain `if A && let P = E { B }` (no else) nested as `if A { if let P = E { B } }`', applied=n))
    return text


def match_brace(m: str, open_idx: int) -> int:
    """index of the brace closing the one at open_idx (masked text)."""
    assert m[open_idx] in '{([', m[open_idx]
    pairs = {'{': '}', '(': ')', '[': ']'}
    stack = []
    i = open_idx
    n = len(m)
    while i < n:
        c = m[i]
        if c in '{([':
            stack.append(pairs[c])
        elif c in '})]':
            if not stack or stack[-1] != c:
                raise ExtractError(f'unbalanced bracket at offset {i}')
            stack.pop()
            if not stack:
                return i
        i += 1
    raise ExtractError('unterminated block')


def line_of(src: str, off: int) -> int:
    return src.count('\n', 0, off) + 1


# --------------------------------------------------------------------------------------------------
# locating items
# --------------------------------------------------------------------------------------------------

def enclosing_header(m: str, off: int):
    """header text of the innermost brace block that contains offset off, or '' at top level."""
    depth = 0
    i = off - 1
    while i >= 0:
        c = m[i]
        if c == '}':
            depth += 1
        elif c == '{':
            if depth == 0:
                # header: back to previous ; { } at this level
                j = i - 1
                d2 = 0
                while j >= 0:
                    cj = m[j]
                    if cj in ')]':
                        d2 += 1
                    elif cj in '([':
                        d2 -= 1
                    elif d2 == 0 and cj in ';{}':
                        break
                    j -= 1
                return m[j + 1:i].strip(), i
            depth -= 1
        i -= 1
    return '', -1


QUAL = re.compile(r'(?:pub(?:\s*\([^)]*\))?|const|async|unsafe|default|extern(?:\s*"[^"]*")?)\s*$')


def find_fn(src: str, m: str, ctx, name: str, nth: int = 0):
    """returns dict(sig_start, name_off, body_open, body_close) offsets into src for the nth match."""
    hits = []
    for mo in re.finditer(r'\bfn\s+' + re.escape(name) + r'\b', m):
        hdr, _ = enclosing_header(m, mo.start())
        if ctx is None:
            # free function: enclosing block is top level, a `mod`, or a macro arm
            if re.search(r'\b(impl|trait)\b', hdr) and not re.search(r'\bfn\b', hdr):
                continue
        else:
            if not re.search(ctx, re.sub(r'\s+', ' ', hdr)):
                continue
        hits.append(mo)
    if len(hits) <= nth:
        raise ExtractError(f'fn `{name}` (ctx {ctx!r}, nth {nth}) not found ({len(hits)} candidates)')
    mo = hits[nth]
    # qualifiers backwards
    s = mo.start()
    while True:
        q = QUAL.search(m[:s])
        if not q:
            break
        s = q.start()
    # body open: first '{' at paren depth 0 after the name; a ';' first means no body
    i = mo.end()
    depth = 0
    n = len(m)
    while i < n:
        c = m[i]
        if c in '([':
            depth += 1
        elif c in ')]':
            depth -= 1
        elif c == '{' and depth == 0:
            # `{ N / 8 }` in a const-generic argument position is not the body
            ic = match_brace(m, i)
            if m[:i].rstrip().endswith(('<', ',')) and m[ic + 1:].lstrip()[:1] in ('>', ','):
                i = ic
            else:
                break
        elif c == ';' and depth == 0:
            raise ExtractError(f'fn `{name}` has no body')
        i += 1
    if i >= n:
        raise ExtractError(f'fn `{name}`: body not found')
    close = match_brace(m, i)
    return dict(sig_start=s, name_off=mo.start(), body_open=i, body_close=close)


def find_item(src: str, m: str, kind: str, name: str, nth: int = 0):
    """struct/enum/const/static/type/impl/trait/macro: returns (start, end) offsets (end exclusive)."""
    if kind == 'impl':
        hits = []
        for mo in re.finditer(r'\bimpl\b', m):
            j = m.find('{', mo.end())
            if j < 0:
                continue
            hdr = re.sub(r'\s+', ' ', m[mo.start():j])
            if ';' in hdr:
                continue
            if re.search(name, hdr):
                hits.append((mo.start(), j))
        if len(hits) <= nth:
            raise ExtractError(f'impl matching /{name}/ not found')
        s, j = hits[nth]
        return s, match_brace(m, j) + 1
    pat = {
        'struct': r'\bstruct\s+%s\b', 'enum': r'\benum\s+%s\b', 'const': r'\bconst\s+%s\b',
        'static': r'\bstatic\s+%s\b', 'type': r'\btype\s+%s\b', 'trait': r'\btrait\s+%s\b',
    }[kind] % re.escape(name)
    hits = list(re.finditer(pat, m))
    if len(hits) <= nth:
        raise ExtractError(f'{kind} `{name}` not found')
    mo = hits[nth]
    s = mo.start()
    q = QUAL.search(m[:s])
    if q:
        s = q.start()
    # end: first ';' or matched '{...}' at depth 0
    i = mo.end()
    depth = 0
    n = len(m)
    while i < n:
        c = m[i]
        if c in '([<' and c != '<':
            depth += 1
        elif c in ')]':
            depth -= 1
        elif c == '{' and depth == 0:
            e = match_brace(m, i) + 1
            # tuple struct after where-clause etc: allow trailing ';'
            return s, e
        elif c == ';' and depth == 0:
            return s, i + 1
        i += 1
    raise ExtractError(f'{kind} `{name}`: end not found')


# --------------------------------------------------------------------------------------------------
# rewrites (newline-preserving)
# --------------------------------------------------------------------------------------------------

def parse_rw(arg: str):
    """`R1 /regex/repl/ min=1`  (any single-char delimiter)"""
    arg = arg.strip()
    rule, rest = arg.split(None, 1)
    d = rest[0]
    parts = []
    cur = ''
    i = 1
    while i < len(rest) and len(parts) < 2:
        if rest[i] == '\\' and i + 1 < len(rest) and rest[i + 1] == d:
            cur += d
            i += 2
            continue
        if rest[i] == d:
            parts.append(cur)
            cur = ''
        else:
            cur += rest[i]
        i += 1
    if len(parts) != 2:
        raise ExtractError(f'bad rw directive: {arg}')
    tail = rest[i:].strip()
    mn = 1
    mo = re.search(r'min=(\d+)', tail)
    if mo:
        mn = int(mo.group(1))
    return rule, parts[0], parts[1].replace('\\&', '&'), mn


def apply_rw(text: str, rule, rx, repl, mn, log):
    cnt = 0

    def sub(mo):
        nonlocal cnt
        cnt += 1
        new = mo.expand(repl)
        a = mo.group(0).count('\n')
        b = new.count('\n')
        if b > a:
            raise ExtractError(f'rewrite {rule} adds lines')
        return new + '\n' * (a - b)

    out = re.sub(rx, sub, text, flags=re.S)
    if cnt < mn:
        # the construct this rewrite redirects is absent from the current source. The text is then verified as it stands:
        # Verus decides (verified = the real text holds; unsupported construct = undecided; failed obligation = violation).
        # VERIF_STRICT_RW=1 (template development) turns this into a lost anchor instead.
        if os.environ.get('VERIF_STRICT_RW'):
            raise ExtractError(f'rewrite {rule} /{rx}/ applied {cnt} times, expected >= {mn} (anchor lost)')
        log.append(dict(rule=rule, regex=rx, replacement=repl, applied=cnt, note=f'expected >= {mn}: construct absent, text verified as it stands'))
        return out
    log.append(dict(rule=rule, regex=rx, replacement=repl, applied=cnt))
    return out



# --------------------------------------------------------------------------------------------------
# R13: call-site inlining of a helper function the unit does not know (a refactor moved code into a new free function)
# --------------------------------------------------------------------------------------------------

INLINE = {'names': set(), 'sources': {}}   # set by build_unit(inline=...)
NEED = {}                                    # helper stubs the always-on rewrites ask for (emitted before `} // verus!`)
PULL = {}                                    # R13d: helper functions (with early exits / loops) to be pulled verbatim after the first function that calls them
PULLED = set()


def _split_top(s: str):
    """split at top-level commas (s is masked-safe text of an argument / parameter list)"""
    parts, depth, cur = [], 0, ''
    ms = mask(s)
    for ch, mc in zip(s, ms):
        if mc in '([{<':
            depth += 1
        elif mc in ')]}>':
            depth -= 1
        if mc == ',' and depth == 0:
            parts.append(cur)
            cur = ''
        else:
            cur += ch
    if cur.strip():
        parts.append(cur)
    return [p.strip() for p in parts]


def _helper_def(name):
    """(params [(ident, type)], body one-line) of a free helper `fn name(..) { .. }` eligible for inlining, else None"""
    for rel, (src, m) in INLINE['sources'].items():
        for mo in re.finditer(r"\bfn\s+" + re.escape(name) + r"\s*(?:<\s*'\w+(?:\s*,\s*'\w+)*\s*>)?\s*\(", m):   # lifetime generics allowed
            # free function only (depth 0) and no generics
            if enclosing_header(m, mo.start())[1] >= 0:
                continue
            po = mo.end() - 1
            pc = match_brace(m, po)
            params = []
            ok = True
            for prm in _split_top(src[po + 1:pc]):
                pm = re.match(r'^(?:mut\s+)?([A-Za-z_]\w*)\s*:\s*(.+)$', prm, flags=re.S)
                if not pm:
                    ok = False
                    break
                params.append((pm.group(1), re.sub(r"'\w+\s*", '', ' '.join(pm.group(2).split()))))   # named lifetimes of the helper do not exist at the call site
            bo = m.find('{', pc)
            if bo < 0 or not ok:
                continue
            bc = match_brace(m, bo)
            bodym = m[bo + 1:bc]
            if re.search(r'\breturn\b|\?|\.await\b|\bloop\b|\bwhile\b|\bfor\b', bodym):
                # not eligible for inlining (early exit / loop): R13d pulls it into the unit as its own item instead
                if re.search(r'\.await\b', bodym):
                    continue
                fs = m.rfind('\n', 0, mo.start()) + 1
                return dict(rel=rel, line=line_of(src, mo.start()), params=params, body=None, text=src[fs:bc + 1])
            # body with comments removed (masked text blanks comments AND literals, so rebuild: keep source chars except comment spans)
            body = src[bo + 1:bc]
            body = re.sub(r'//[^\n]*', '', body)
            body = ' '.join(body.split())
            return dict(rel=rel, line=line_of(src, mo.start()), params=params, body=body)
    return None


def inline_helpers(text: str, log):
    for name in sorted(INLINE['names']):
        d = None
        guard = 0
        while guard < 20:
            guard += 1
            mm = mask(text)
            mo = re.search(r'(?<![\w:.])' + re.escape(name) + r'\s*\(', mm)
            if not mo:
                break
            if d is None:
                d = _helper_def(name)
                if d is None:
                    break
            if d['body'] is None:
                PULL[name] = d
                break
            po = mo.end() - 1
            pc = match_brace(mm, po)
            args = _split_top(text[po + 1:pc])
            if len(args) != len(d['params']):
                break
            lets = ' '.join(f'let {pn}: {pt} = {a};' for (pn, pt), a in zip(d['params'], args))
            new = '{ ' + lets + ' ' + d['body'] + ' }'
            nl = text[mo.start():pc + 1].count('\n')
            text = text[:mo.start()] + new + '\n' * nl + text[pc + 1:]
            log.append(dict(rule='R13', what=f"call to helper `{name}` ({d['rel']}:{d['line']}) inlined at the call site: {new[:160]}", applied=1))
    return text

ATTR_DOC = re.compile(r'^[ \t]*(///[^\n]*|//![^\n]*|#!?\[[^\]]*\](?:[ \t]*))[ \t]*$', re.M)


def strip_attrs(text: str, log):
    """R2: remove attribute and doc-comment lines (line count preserved)."""
    cnt = 0
    m = mask(text)
    out = []
    pos = 0
    # attributes can span lines and nest brackets: scan on masked text
    i = 0
    n = len(text)
    res = list(text)
    while i < n:
        if m[i] == '#' and re.match(r'#!?\[', m[i:i + 3]):
            j = m.find('[', i)
            e = match_brace(m, j)
            for k in range(i, e + 1):
                if res[k] != '\n':
                    res[k] = ' '
            cnt += 1
            i = e + 1
        else:
            i += 1
    t2 = ''.join(res)
    # doc comments
    def d(mo):
        nonlocal cnt
        cnt += 1
        return ''
    t3 = re.sub(r'^[ \t]*//[/!][^\n]*$', d, t2, flags=re.M)
    if cnt:
        log.append(dict(rule='R2', what='attributes/doc comments removed', applied=cnt))
    return t3


# --------------------------------------------------------------------------------------------------
# loops and anchors inside a body
# --------------------------------------------------------------------------------------------------

def find_loops(body: str):
    """offsets (into body) of the '{' opening each loop's block, in textual order."""
    m = mask(body)
    res = []
    for mo in re.finditer(r'\b(while|for|loop)\b', m):
        kw = mo.group(1)
        # `for` in `for<'a>` or `impl .. for ..` is not a loop
        after = m[mo.end():mo.end() + 2]
        if kw == 'for' and after.lstrip().startswith('<'):
            continue
        i = mo.end()
        depth = 0
        n = len(m)
        in_off = None
        if kw == 'for':
            # skip the pattern (which may contain braces: `for Foo { a, .. } in xs`) up to the `in` keyword
            d2 = 0
            while i < n:
                c = m[i]
                if c in '([{':
                    d2 += 1
                elif c in ')]}':
                    d2 -= 1
                elif d2 == 0 and m.startswith('in', i) and not (m[i - 1].isalnum() or m[i - 1] == '_') \
                        and i + 2 < n and not (m[i + 2].isalnum() or m[i + 2] == '_'):
                    i += 2
                    in_off = i
                    break
                i += 1
        while i < n:
            c = m[i]
            if c in '([':
                depth += 1
            elif c in ')]':
                depth -= 1
            elif c == '{' and depth == 0:
                break
            elif c == ';' and depth == 0:
                i = -1
                break
            i += 1
        if i is None or i < 0 or i >= n:
            continue
        res.append((mo.start(), i, in_off))
    return res


def find_anchor(body: str, text: str, k: int):
    idx = -1
    start = 0
    for _ in range(k + 1):
        idx = body.find(text, start)
        if idx < 0:
            return -1
        start = idx + 1
    return idx


# --------------------------------------------------------------------------------------------------
# template processing
# --------------------------------------------------------------------------------------------------

class Gen:
    def __init__(self):
        self.lines = []   # generated lines
        self.map = []     # per line: dict(kind='src'|'tmpl', file, line, fn, ob)

    def emit(self, text, kind, file, line0, fn=None, ob=None, step=True):
        """emit text (may be multi-line, without trailing newline handling) mapping successive lines."""
        parts = text.split('\n')
        for k, p in enumerate(parts):
            self.lines.append(p)
            self.map.append(dict(kind=kind, file=file, line=line0 + (k if step else 0), fn=fn, ob=ob))

    def append_to_last(self, text):
        self.lines[-1] += text


OB_TAG = re.compile(r'\[\[([A-Za-z0-9_.:\-]+)\]\]\s*')


def parse_kv(parts):
    kv = {}
    for p in parts:
        p = p.strip()
        if not p:
            continue
        if '=' in p:
            k, v = p.split('=', 1)
            kv[k.strip()] = v.strip()
        else:
            kv[p] = '1'
    return kv


def build_unit(tmpl_path: str, repo: str, inline=None, pull_consts=None):
    """returns dict(text, map, meta)"""
    INLINE['names'] = set(inline or [])
    INLINE['sources'] = {}
    PULL.clear(); PULLED.clear()
    NEED.clear()
    pull_consts = list(pull_consts or [])
    tl = open(tmpl_path).read().split('\n')
    g = Gen()
    meta = dict(unit=None, properties=[], min_verified=1, functions=[], items=[], canaries=[], obligations=[],
                rewrites=[], template=tmpl_path)
    srccache = {}
    default_rw = []
    late_rw = []

    def load(rel):
        if rel not in srccache:
            p = os.path.join(repo, rel)
            if not os.path.exists(p):
                raise ExtractError(f'source file missing: {rel}')
            s = open(p).read()
            srccache[rel] = (s, mask(s))
            INLINE['sources'][rel] = srccache[rel]
        return srccache[rel]

    i = 0
    n = len(tl)
    while i < n:
        ln = tl[i]
        st = ln.strip()
        if not st.startswith('//@@'):
            if st.startswith('} // verus!'):
                # R13d: helper functions a refactor introduced that are not eligible for inlining (early exit / loop): pulled verbatim, at the unit's top level
                for hname, hd in sorted(PULL.items()):
                    if hname in PULLED:
                        continue
                    PULLED.add(hname)
                    hlog = []
                    htext = nest_let_chains(strip_attrs(hd['text'], hlog), hlog, hname)
                    htext = re.sub(r'^(\s*)(pub(\([^)]*\))?\s+)?fn\b', r'\1pub fn', htext, count=1)
                    g.emit(f"// ==== SOURCE {hd['rel']}:{hd['line']} fn {hname} (R13d: a helper the unit did not know, with an early exit or a loop — pulled verbatim, no contract of its own: verified as it stands)", 'tmpl', tmpl_path, i + 1, fn=hname)
                    g.emit(htext, 'src', hd['rel'], hd['line'], fn=hname)
                    meta['rewrites'].append(dict(fn=hname, rule='R13', what=f"helper `{hname}` ({hd['rel']}:{hd['line']}) is not inlinable (early exit / loop): pulled into the unit as its own function", applied=1))
            if st.startswith('} // verus!') and NEED.get('slice_to_array'):
                g.emit('/// std: copying a slice into an array of the same length (R10b; panics on a length mismatch)', 'tmpl', tmpl_path, i + 1)
                g.emit('#[verifier::external_body]', 'tmpl', tmpl_path, i + 1)
                g.emit('pub fn __slice_to_array<const N: usize>(s: &[u8]) -> (r: [u8; N]) requires s@.len() == N ensures r@ == s@ { unimplemented!() }', 'tmpl', tmpl_path, i + 1)
            mo = OB_TAG.search(ln)
            ob = None
            if mo:
                ob = mo.group(1)
                ln = ln[:mo.start()] + ln[mo.end():]
                meta['obligations'].append(dict(name=ob, where=f'{os.path.basename(tmpl_path)}:{i + 1}', fn=None))
            g.emit(ln, 'tmpl', tmpl_path, i + 1, ob=ob)
            if pull_consts and st.startswith('verus!') and st.endswith('{'):
                # R13b: constants the unit does not know (a refactor started using them) are pulled verbatim from the
                # unit's own source files
                rels = []
                for l2 in tl:
                    mo2 = re.match(r'\s*//@@ (?:fn|item) (\S+) \|', l2)
                    if mo2 and mo2.group(1) not in rels:
                        rels.append(mo2.group(1))
                for cname in pull_consts:
                    for rel in rels:
                        try:
                            src, m = load(rel)
                            s0, e0 = find_item(src, m, 'const', cname, 0)
                        except ExtractError:
                            continue
                        ctext = src[s0:e0]
                        ctext = re.sub(r'^\s*(pub(\([^)]*\))?\s+)?const', 'pub const', ctext, count=1)
                        g.emit(f'// ==== SOURCE {rel}:{line_of(src, s0)} const {cname} (R13b: pulled because the verified text uses it)', 'tmpl', tmpl_path, i + 1)
                        g.emit(ctext, 'src', rel, line_of(src, s0), fn=None)
                        meta['rewrites'].append(dict(fn=f'const {cname}', rule='R13b', what=f'const {cname} pulled from {rel}', applied=1))
                        break
            i += 1
            continue
        d = st[4:].strip()
        if d.startswith('include '):
            inc = os.path.join(os.path.dirname(tmpl_path), d.split(None, 1)[1].strip())
            il = open(inc).read().split('\n')
            tl[i:i + 1] = il
            n = len(tl)
            continue
        if d.startswith('unit '):
            meta['unit'] = d.split()[1]
        elif d.startswith('property '):
            meta['properties'] = d.split()[1:]
        elif d.startswith('min-verified '):
            meta['min_verified'] = int(d.split()[1])
        elif d.startswith('helper-files '):
            # further source files in which R13 may look for a free helper function a refactor moved code into (e.g. the crate's utils.rs)
            for rel_ in d.split()[1:]:
                try:
                    load(rel_)
                except Exception:
                    pass
        elif d.startswith('default-rw-late '):
            # like default-rw, but applied after every other rewrite of the fn (generic shapes that must not pre-empt specific ones)
            arg = d[len('default-rw-late '):].strip()
            if 'min=' not in arg.rsplit('/', 1)[-1]:
                arg += ' min=0'
            late_rw.append(arg)
        elif d.startswith('default-rw '):
            # a rewrite applied (min=0) to every fn block that follows in this unit (e.g. R6 async/.await removal)
            arg = d[len('default-rw '):].strip()
            if arg == 'clear':
                default_rw.clear()
            else:
                if 'min=' not in arg.rsplit('/', 1)[-1]:
                    arg += ' min=0'
                default_rw.append(arg)
        elif d.startswith('fn ') or d.startswith('item '):
            is_fn = d.startswith('fn ')
            fields = [x.strip() for x in d.split(None, 1)[1].split('|')]
            rel, a, b = fields[0], fields[1], fields[2]
            kv = parse_kv(fields[3:])
            # collect sub-blocks until //@@ end
            subs = []  # (kind, arg, [(lineNo, text)])
            i += 1
            while i < n and tl[i].strip() != '//@@ end':
                s2 = tl[i].strip()
                if s2.startswith('//@@'):
                    dd = s2[4:].strip()
                    kind = dd.split()[0]
                    arg = dd[len(kind):].strip()
                    subs.append([kind, arg, [], i + 1])
                else:
                    if not subs:
                        if s2:
                            raise ExtractError(f'{tmpl_path}:{i + 1}: text before sub-directive')
                    else:
                        subs[-1][2].append((i + 1, tl[i]))
                i += 1
            if i >= n:
                raise ExtractError(f'{tmpl_path}: unterminated block for {b}')
            src, m = load(rel)
            if is_fn and (default_rw or late_rw):
                subs = subs + [['rw', a_, [], i + 1] for a_ in default_rw + late_rw]   # unit-wide defaults run after the fn's own rewrites
            if is_fn:
                ctx_ = None if a in ('-', '') else a
                if kv.get('fallback'):
                    # `fallback=<file>#<ctx>`: the function is looked up at its primary location first (e.g. an impl that may OVERRIDE a
                    # trait's provided method); only if it is not defined there is the fallback location (the trait's default body) used
                    try:
                        find_fn(src, m, ctx_, b, int(kv.get('nth', 0)))
                    except ExtractError:
                        rel, ctx_ = kv['fallback'].split('#', 1)
                        src, m = load(rel)
                        kv = {k_: v_ for k_, v_ in kv.items() if k_ not in ('inv', 'params', 'nth')}   # the fallback is not inside the macro
                _emit_fn(g, meta, tmpl_path, rel, src, m, ctx_, b, kv, subs)
            else:
                _emit_item(g, meta, tmpl_path, rel, src, m, a, b, kv, subs)
        elif d == 'end':
            raise ExtractError(f'{tmpl_path}:{i + 1}: stray end')
        else:
            raise ExtractError(f'{tmpl_path}:{i + 1}: unknown directive {d}')
        i += 1
    return dict(text='\n'.join(g.lines) + '\n', map=g.map, meta=meta)


def _name_ret(sig: str, ident: str):
    m = mask(sig)
    # '->' at paren depth 0 after the parameter list
    depth = 0
    pos = -1
    for k in range(len(m) - 1):
        c = m[k]
        if c in '([':
            depth += 1
        elif c in ')]':
            depth -= 1
        elif depth == 0 and m[k] == '-' and m[k + 1] == '>':
            pos = k
    if pos < 0:
        raise ExtractError('ret= given but signature has no return type')
    rest = sig[pos + 2:]
    mw = re.search(r'\bwhere\b', mask(rest))
    ty = rest[:mw.start()] if mw else rest
    tail = rest[mw.start():] if mw else ''
    nl = ty.count('\n')
    return sig[:pos] + f'-> ({ident}: {ty.strip()})' + ' ' + '\n' * nl + tail


def _emit_fn(g, meta, tmpl, rel, src, m, ctx, name, kv, subs):
    loc = find_fn(src, m, ctx, name, int(kv.get('nth', 0)))
    s, bo, bc = loc['sig_start'], loc['body_open'], loc['body_close']
    text = src[s:bc + 1]
    line0 = line_of(src, s)
    sha = hashlib.sha256(text.encode()).hexdigest()
    rwlog = []
    # R3: declarative-macro parameters substituted from the macro *invocation* found in the same source file, so the
    # verified instance is the one the repository actually instantiates (inv=<macro>!<first-arg>, params=<p0>,<p1>,..:
    # a parameter starting with `$` is substituted by the invocation's argument, a literal one must equal it — it is the
    # literal that selects the macro arm — otherwise the anchor is lost and the run is undecided)
    if 'inv' in kv:
        macro, first = kv['inv'].split('!', 1)
        mo_inv = re.search(r'\b%s!\s*\(\s*%s\s*((?:,[^;()]*)*)\)\s*;' % (re.escape(macro), re.escape(first)), m)
        if not mo_inv:
            raise ExtractError(f'macro invocation {macro}!({first}, ..) not found in {rel} — anchor lost')
        args = [first] + [a.strip() for a in mo_inv.group(1).split(',')[1:]]
        params = kv.get('params', '').split(',')
        if len(params) != len(args):
            raise ExtractError(f'{macro}!({", ".join(args)}): {len(args)} arguments, the unit expects {len(params)} — a different macro arm applies')
        for prm, a in zip(params, args):
            if prm.startswith('$'):
                text, cnt = re.subn(re.escape(prm) + r'\b', a, text)
                rwlog.append(dict(rule='R3', what=f'{prm} := {a} (from {macro}!({", ".join(args)}) at {rel}:{line_of(src, mo_inv.start())})', applied=cnt))
                if prm == '$' + name.lstrip('$') or prm == name:
                    name = a
            elif prm != a:
                raise ExtractError(f'{macro}!({", ".join(args)}): argument `{a}` where the unit expects the arm literal `{prm}`')
    # rewrites on sig+body
    for kind, arg, content, lno in subs:
        if kind == 'rw':
            rule, rx, repl, mn = parse_rw(arg)
            text = apply_rw(text, rule, rx, repl, mn, rwlog)
    if kv.get('dropfn'):
        # R13c: a nested helper `fn NAME(..) -> .. { .. }` declared inside the body is cut out EXACTLY (brace-matched on the masked
        # text); the unit supplies a contract for it. Nothing else of the body can be swallowed, whatever is inserted around it.
        nm = kv['dropfn']
        mm0 = mask(text)
        hits = [mo for mo in re.finditer(r'\bfn\s+' + re.escape(nm) + r'\b', mm0)]
        hits = [mo for mo in hits if mo.start() > mm0.index('{')]      # not the extracted function's own header
        if len(hits) != 1:
            raise ExtractError(f'{name}: nested fn `{nm}` found {len(hits)} times — anchor lost')
        st = hits[0].start()
        ob = mm0.index('{', st)
        cb = match_brace(mm0, ob)
        cut = text[st:cb + 1]
        text = text[:st] + '\n' * cut.count('\n') + text[cb + 1:]
        rwlog.append(dict(rule='R13', what=f'nested helper fn `{nm}` removed from the body (its contract is supplied by the unit): {len(cut)} characters, exactly its item', applied=1))
    text = nest_let_chains(text, rwlog, name)
    if kv.get('enumerate') == '1':
        text = desugar_enumerate(text, rwlog)
    if kv.get('whilelet') == '1':
        text = desugar_while_let(text, rwlog)
    if kv.get('chain'):
        text = split_chains(text, kv['chain'], rwlog)
    if kv.get('attrs') != 'keep':
        text = strip_attrs(text, rwlog)
    if INLINE['names']:
        text = inline_helpers(text, rwlog)
    # R12a (always on): a closure parameter written `_` is named (`|_| e` -> `|_ignored| e`); Verus only takes variables there
    mm0 = mask(text)
    hits = [mo.start() for mo in re.finditer(r'\|\s*_\s*\|', mm0)]
    if hits:
        for h in reversed(hits):
            e = mm0.index('|', h + 1)
            text = text[:h] + '|_ignored|' + text[e + 1:]
        rwlog.append(dict(rule='R12', what='closure parameter `_` named `_ignored`', applied=len(hits)))
    # R10b (always on): `let [mut] x: [u8; N] = <slice expr>.try_into().expect(..)|.unwrap();` (copying a slice into an array; the
    # installed Verus has no specification for the TryFrom<&[T]> for [T; N] blanket path) -> a stub with the std meaning:
    # panics unless the slice has N elements, result holds the same bytes. The stub is emitted at the end of the unit.
    def _tryinto(mo):
        NEED['slice_to_array'] = True
        new = f"{mo.group(1)}: [u8; {mo.group(2)}] = __slice_to_array::<{{ {mo.group(2)} }}>(&{' '.join(mo.group(3).split())});"
        return new + '\n' * (mo.group(0).count('\n') - new.count('\n'))
    text2 = re.sub(r'(let\s+(?:mut\s+)?\w+)\s*:\s*\[u8;\s*([^\]]+)\]\s*=\s*([^;]+?)\s*\.try_into\(\)\s*\.(?:expect\([^;]*?\)|unwrap\(\))\s*;', _tryinto, text, flags=re.S)
    if text2 != text:
        text = text2
        rwlog.append(dict(rule='R10', what='`let x: [u8; N] = s.try_into().expect(..)` -> __slice_to_array::<N>(&s) (assumed std meaning)', applied=1))
    # R10a (always on): `assert_eq!(a, b[, "msg"..])` -> `assert!(a == b)` and `assert_ne!` likewise — the same runtime check (the
    # panic message is dropped); the installed Verus has no specification for core::panicking::assert_failed
    for mac, op in (('assert_eq', '=='), ('assert_ne', '!=')):
        guard = 0
        while guard < 50:
            guard += 1
            mm0 = mask(text)
            mo = re.search(r'\b' + mac + r'!\s*\(', mm0)
            if not mo:
                break
            po = mo.end() - 1
            pc = match_brace(mm0, po)
            args = _split_top(text[po + 1:pc])
            if len(args) < 2:
                break
            nl = text[mo.start():pc + 1].count('\n')
            text = text[:mo.start()] + f'assert!({" ".join(args[0].split())} {op} {" ".join(args[1].split())})' + '\n' * nl + text[pc + 1:]
            rwlog.append(dict(rule='R10', what=f'{mac}!(a, b, ..) -> assert!(a {op} b)', applied=1))
    mm = mask(text)
    # re-find body open in rewritten text: first '{' at depth 0 after fn name
    mo = re.search(r'\bfn\s+' + re.escape(name) + r'\b', mm)
    if not mo:
        raise ExtractError(f'{name}: rewrite destroyed the fn header')
    k = mo.end()
    depth = 0
    while k < len(mm):
        c = mm[k]
        if c in '([':
            depth += 1
        elif c in ')]':
            depth -= 1
        elif c == '{' and depth == 0:
            kc = match_brace(mm, k)
            if mm[:k].rstrip().endswith(('<', ',')) and mm[kc + 1:].lstrip()[:1] in ('>', ','):
                k = kc      # a const-generic argument `{ N }`, not the body
            else:
                break
        k += 1
    sig = text[:k]
    body = text[k + 1:-1]
    body_line0 = line0 + sig.count('\n')
    newname = kv.get('rename')
    if newname:
        sig = re.sub(r'\bfn\s+' + re.escape(name) + r'\b', 'fn ' + newname, sig, count=1)
    if 'ret' in kv:
        sig = _name_ret(sig, kv['ret'])
    if 'where' in kv:
        # extra trait bounds needed when a trait-impl method is verified as an inherent function (the bounds of the
        # original impl header are restated on the function)
        sig = sig.rstrip() + ' where ' + kv['where'] + ' '
        rwlog.append(dict(rule='R8', what='impl-header bounds restated on the fn: ' + kv['where'], applied=1))
    if kv.get('vis') != 'keep':
        sig2 = re.sub(r'^\s*pub\s*\([^)]*\)\s*', 'pub ', sig)
        if sig2 != sig:
            rwlog.append(dict(rule='R8', what='pub(..) -> pub', applied=1))
        sig = sig2
    if kv.get('vis') == 'pub' and not re.match(r'\s*pub\b', sig):
        sig = 'pub ' + sig.lstrip()
        rwlog.append(dict(rule='R8', what='private fn made pub inside the unit', applied=1))
    fname = newname or name
    qual = f'{rel}::{ctx or ""}::{name}'
    canary = kv.get('canary') == '1'
    g.emit(f'// ==== SOURCE {rel}:{line0}-{line_of(src, bc)} fn {name} sha256={sha[:16]} rewrites={[r["rule"] for r in rwlog]}',
           'tmpl', tmpl, subs[0][3] if subs else 0, fn=fname)
    if kv.get('sigonly') == '1':
        # R18: only the REAL signature is taken (so the assumed contract follows the real parameter list); the body stays outside the
        # unit and the function is `external_body` — an assumption, listed as such
        body = ' unimplemented!() '
        rwlog.append(dict(rule='R18', what='signature only: body left out, the contract written on it is ASSUMED (external_body)', applied=1))
        g.emit('#[verifier::external_body]', 'tmpl', tmpl, subs[0][3] if subs else 0, fn=fname)
    g.emit(sig.rstrip(), 'src', rel, line0, fn=fname)
    # spec
    loops_spec = {}
    loop_iter = {}
    hints = []
    for kind, arg, content, lno in subs:
        if kind == 'spec':
            pending = None   # a tag names its whole clause: every line up to the one that ends with ','
            for (l, t) in content:
                ob = pending
                mo2 = OB_TAG.search(t)
                if mo2:
                    ob = mo2.group(1)
                    t = t[:mo2.start()] + t[mo2.end():]
                    meta['obligations'].append(dict(name=ob, where=f'{os.path.basename(tmpl)}:{l}', fn=fname, canary=canary))
                if ob:
                    pending = None if t.rstrip().endswith(',') else ob
                g.emit(t, 'tmpl', tmpl, l, fn=fname, ob=ob)
        elif kind == 'loop':
            la = arg.split()
            loops_spec[int(la[0])] = content
            for extra in la[1:]:
                if extra.startswith('iter='):
                    loop_iter[int(la[0])] = extra[5:]
        elif kind == 'at':
            if arg.strip() in ('start', 'end', 'tail'):
                hints.append((arg.strip(), '', 0, content, lno))
                continue
            mo4 = re.match(r'(loopstart|afterloop)\s+(\d+)\s*$', arg)
            if mo4:
                # loopstart: first thing inside the body of loop #k; afterloop: right after its closing brace (shape-independent anchors:
                # no statement text is named)
                hints.append((mo4.group(1), '', int(mo4.group(2)), content, lno))
                continue
            mo3 = re.match(r'(before|after)\s+`(.*)`\s*(?:#(\d+))?\s*$', arg)
            if not mo3:
                raise ExtractError(f'{tmpl}:{lno}: bad at directive')
            hints.append((mo3.group(1), mo3.group(2), int(mo3.group(3) or 0), content, lno))
        elif kind == 'rw':
            pass
        else:
            raise ExtractError(f'{tmpl}:{lno}: unknown sub-directive {kind}')
    if kv.get('nobody') == '1':
        # external_body style: keep the signature + contract, body is the real one but unverified
        pass
    # insertion points in body
    inserts = []  # (offset, [(lineNo, text)], obprefix)
    loops = find_loops(body)
    for ordn, content in loops_spec.items():
        if ordn >= len(loops):
            raise ExtractError(f'{name}: loop #{ordn} not found ({len(loops)} loops) — anchor lost')
        inserts.append((loops[ordn][1], content))
        if ordn in loop_iter:
            if loops[ordn][2] is None:
                raise ExtractError(f'{name}: loop #{ordn} is not a for loop (iter= given)')
            # ghost name for the for-loop iterator (Verus syntax `for x in NAME: expr`): annotation only
            inserts.append((loops[ordn][2], [(0, ' ' + loop_iter[ordn] + ':')], 'inline'))
    for (where, atext, kk, content, lno) in hints:
        if where == 'start':
            inserts.append((0, content))
            continue
        if where == 'end':
            inserts.append((len(body), content))
            continue
        if where in ('loopstart', 'afterloop'):
            if kk >= len(loops):
                raise ExtractError(f'{name}: loop #{kk} not found ({len(loops)} loops) — anchor lost')
            if where == 'loopstart':
                inserts.append((loops[kk][1] + 1, content))
            else:
                inserts.append((match_brace(mask(body), loops[kk][1]) + 1, content))
            continue
        if where == 'tail':
            # just before the tail expression: after the last `;` at brace depth 0 of the body
            mb = mask(body)
            depth = 0
            bounds = [0]
            for ii, ch in enumerate(mb):
                if ch in '{([':
                    depth += 1
                elif ch in '})]':
                    depth -= 1
                    if ch == '}' and depth == 0:
                        bounds.append(ii + 1)      # end of a block statement (or of a block-like tail expression)
                elif ch == ';' and depth == 0:
                    bounds.append(ii + 1)
            last = 0
            for b in bounds:
                rest = mb[b:].strip()
                if rest and not rest.startswith('else') and not rest.startswith('.') and not rest.startswith('?'):
                    last = b
            inserts.append((last, content))
            continue
        off = find_anchor(body, atext, kk)
        if off < 0:
            raise ExtractError(f'{name}: anchor `{atext}` #{kk} not found — anchor lost')
        for (l, t) in content:
            tt = t.strip()
            if tt and not _ghost_only(tt):
                pass
        inserts.append((off if where == 'before' else off + len(atext), content))
    inserts.sort(key=lambda x: x[0])
    g.emit('{', 'tmpl', tmpl, 0, fn=fname)
    pos = 0
    cur_line = body_line0
    cont = False
    for ins in inserts:
        off, content = ins[0], ins[1]
        seg = body[pos:off]
        _emit_src_seg(g, seg, rel, cur_line, fname, cont)
        cont = False
        cur_line += seg.count('\n')
        if len(ins) > 2 and ins[2] == 'inline':
            g.lines[-1] += content[0][1]
            pos = off
            cont = True
            continue
        for (l, t) in content:
            ob = None
            mo2 = OB_TAG.search(t)
            if mo2:
                ob = mo2.group(1)
                t = t[:mo2.start()] + t[mo2.end():]
                meta['obligations'].append(dict(name=ob, where=f'{os.path.basename(tmpl)}:{l}', fn=fname, canary=canary))
            g.emit(t, 'tmpl', tmpl, l, fn=fname, ob=ob)
        pos = off
    seg = body[pos:]
    _emit_src_seg(g, seg, rel, cur_line, fname, cont)
    g.emit('}', 'tmpl', tmpl, 0, fn=fname)
    rec = dict(fn=fname, source=f'{rel}:{line0}-{line_of(src, bc)}', qual=qual, sha256=sha, rewrites=rwlog,
               loops=len(loops), canary=canary, assumed=(kv.get('sigonly') == '1'))
    (meta['canaries'] if canary else meta['functions']).append(rec)
    for r in rwlog:
        meta['rewrites'].append(dict(fn=fname, **r))


def _ghost_only(t):
    return True


def _emit_src_seg(g, seg, rel, line0, fname, cont=False):
    parts = seg.split('\n')
    for k, p in enumerate(parts):
        if k == 0 and cont:
            g.lines[-1] += p
            continue
        g.lines.append(p)
        g.map.append(dict(kind='src', file=rel, line=line0 + k, fn=fname, ob=None))


def _emit_item(g, meta, tmpl, rel, src, m, kind, name, kv, subs):
    s, e = find_item(src, m, kind, name, int(kv.get('nth', 0)))
    text = src[s:e]
    line0 = line_of(src, s)
    sha = hashlib.sha256(text.encode()).hexdigest()
    rwlog = []
    for k2, arg, content, lno in subs:
        if k2 == 'rw':
            rule, rx, repl, mn = parse_rw(arg)
            text = apply_rw(text, rule, rx, repl, mn, rwlog)
    if kv.get('attrs') != 'keep':
        text = strip_attrs(text, rwlog)
    if kv.get('vis') != 'keep':
        text = re.sub(r'\bpub\s*\([^)]*\)\s*', 'pub ', text)
    g.emit(f'// ==== SOURCE {rel}:{line0}-{line_of(src, e)} {kind} {name} sha256={sha[:16]} rewrites={[r["rule"] for r in rwlog]}',
           'tmpl', tmpl, subs[0][3] if subs else 0)
    g.emit(text, 'src', rel, line0, fn=None)
    meta['items'].append(dict(item=f'{kind} {name}', source=f'{rel}:{line0}-{line_of(src, e)}', sha256=sha, rewrites=rwlog))
    for r in rwlog:
        meta['rewrites'].append(dict(fn=f'{kind} {name}', **r))


if __name__ == '__main__':
    tmpl, repo, out = sys.argv[1], sys.argv[2], sys.argv[3]
    try:
        r = build_unit(tmpl, repo)
    except ExtractError as ex:
        print('UNDECIDED:', ex)
        sys.exit(2)
    open(out, 'w').write(r['text'])
    json.dump(dict(map=r['map'], meta=r['meta']), open(out + '.map.json', 'w'))
    print(f"generated {out}: {len(r['map'])} lines, {len(r['meta']['functions'])} fns")
