#!/usr/bin/env python3
"""gen_c23 — writes contracts/C23_<protocol>.vt from the per-protocol tables below (convenience only: the generated templates
are committed and are what the checks read). Each template puts the client and server agents of one mini-protocol of the
original stack (pallas-network/src/miniprotocols/<dir>/{protocol,client,server}.rs) under contract against a specification
state machine (agency + transition function) written from the Ouroboros network specification.

Uniform contract shapes (o = old(self), f = final(self); log = the channel's ghost exchange log):
  send_message : !o.may_send(msg) ==> Err and nothing is handed to the channel; Ok ==> permitted and the log grows by that message
  recv_message : Ok(m) ==> o.may_recv(m) and the log grows by m; the state never changes
  STEP1 methods: Ok ==> exactly one message was exchanged and f.state == spec successor of o.state under THAT message;
                 Err ==> f.state == o.state
  STEP2 methods: Ok ==> exactly two messages, state == successor of successor
"""
import os
import sys

V = os.path.dirname(os.path.dirname(os.path.abspath(__file__)))
BASE = 'pallas-network/src/miniprotocols'


def role_block(p, role):
    r = p[role]
    me = 'Client' if role == 'client' else 'Server'
    peer = 'Server' if role == 'client' else 'Client'
    S = r['struct']
    E = r['err']
    G = p.get('generics', '')          # e.g. <O>
    GI = p.get('impl_generics', G)     # e.g. <O>
    W = r.get('where', '')
    MSG = p['msg'] + G
    SF = r.get('sf', '0')
    CF = r.get('cf', '1')
    PX = r.get('plex', 'Plexer')
    f = f"{BASE}/{p['dir']}/{role}.rs"
    ctx = r.get('ctx', f"impl{GI} {S}{G}" if G else f'impl {S}')
    ctxr = ctx.replace('<', '\\<').replace('>', '\\>') if False else ctx
    out = []
    o = out.append
    o(f'pub mod {role} {{')
    o('    use vstd::prelude::*;')
    o('    use super::*;')
    if r.get('prelude_use'):
        o('    ' + r['prelude_use'])
    for it in r.get('items', []):
        o(f'//@@ item {f} | {it[0]} | {it[1]}')
        for rw in it[2:]:
            o(f'//@@ rw {rw}')
        o('//@@ end')
    if not p.get('err_in_protocol'):
        o(f'//@@ item {f} | enum | {E}')
        o('//@@ end')
    o(f'//@@ item {f} | struct | {S}')
    o(f"//@@ rw R8 {r['fields_rw']}")
    for rw in r.get('struct_rw', []):
        o(f'//@@ rw {rw}')
    o('//@@ end')
    for ln in r.get('module_lines', []):
        o(ln)
    o(f'impl{GI} {S}{G} {W} {{')
    o(f'    pub open spec fn log(&self) -> Seq<Ev<{MSG}>> {{ self.{CF}.log::<{MSG}>() }}')
    o(f'    pub open spec fn may_send(&self, m: {MSG}) -> bool {{ agency(self.{SF}) is {me} && trans(self.{SF}, m) is Some }}')
    o(f'    pub open spec fn may_recv(&self, m: {MSG}) -> bool {{ agency(self.{SF}) is {peer} && trans(self.{SF}, m) is Some }}')
    o(f'    /// the specification successor of state s under one exchanged message (None: the exchange is not permitted to that side)')
    o(f'    pub open spec fn step(s: State, e: Ev<{MSG}>) -> Option<State> {{')
    o(f'        if (e.sent && agency(s) is {me}) || (!e.sent && agency(s) is {peer}) {{ trans(s, e.msg) }} else {{ None }}')
    o('    }')
    o('    /// exactly one message was exchanged and the agent is in the state the specification prescribes after it')
    o('    pub open spec fn step1(o: &Self, f: &Self, sent: bool) -> bool {')
    o('        f.log().len() == o.log().len() + 1 && f.log().drop_last() =~= o.log() && f.log().last().sent == sent')
    o(f'        && Self::step(o.{SF}, f.log().last()) == Some(f.{SF})')
    o('    }')
    o('    /// exactly two messages were exchanged, each permitted in turn')
    o('    pub open spec fn step2(o: &Self, f: &Self, sent1: bool, sent2: bool) -> bool {')
    o('        f.log().len() == o.log().len() + 2 && f.log().subrange(0, o.log().len() as int) =~= o.log()')
    o('        && f.log()[o.log().len() as int].sent == sent1 && f.log().last().sent == sent2')
    o(f'        && (Self::step(o.{SF}, f.log()[o.log().len() as int]) matches Some(s1) && Self::step(s1, f.log().last()) == Some(f.{SF}))')
    o('    }')
    P = p['name']

    def fn(name, spec, extra=None, keys=''):
        o(f'//@@ fn {f} | {ctx} | {name} | ret=r{keys}')
        for rw in r.get('rewrites', {}).get(name, []):
            o(f'//@@ rw {rw}')
        o('//@@ spec')
        for ln in spec:
            o('        ' + ln)
        for ex in (extra or []):
            o(ex)
        o('//@@ end')

    fn('new', [f"ensures [[C23.{P}.{role}.initial_state]] r.{SF} == {r['initial']},"])
    fn('state', [f'ensures *r == self.{SF},'])
    # the code's notion of agency may differ from the specification's in terminal states (nobody's agency): only the two
    # states-with-agency classes are constrained; what is sent/accepted is pinned by the outbound/inbound tables below
    fn('has_agency', [f'ensures [[C23.{P}.{role}.agency]] (agency(self.{SF}) is {me} ==> r) && (agency(self.{SF}) is {peer} ==> !r),'], keys=' | vis=pub')
    fn('assert_agency_is_ours', [f'ensures (agency(self.{SF}) is {me} ==> r is Ok) && (agency(self.{SF}) is {peer} ==> r is Err),'], keys=' | vis=pub')
    fn('assert_agency_is_theirs', [f'ensures (agency(self.{SF}) is {peer} ==> r is Ok) && (agency(self.{SF}) is {me} ==> r is Err),'], keys=' | vis=pub')
    fn('assert_outbound_state', [f'ensures [[C23.{P}.{role}.outbound_table]] r is Ok <==> self.may_send(*msg),'], keys=' | vis=pub')
    fn('assert_inbound_state', [f'ensures [[C23.{P}.{role}.inbound_table]] r is Ok <==> self.may_recv(*msg),'], keys=' | vis=pub')
    plex = f'//@@ rw R12 /\\.map_err\\({E}::{PX}\\)/.map_err(|e: multiplexer::Error| {E}::{PX}(e))/'
    o(f'//@@ fn {f} | {ctx} | send_message | ret=r | vis=pub')
    o(plex)
    for rw in r.get('rewrites', {}).get('send_message', []):
        o(f'//@@ rw {rw}')
    o('//@@ spec')
    o('        ensures')
    o(f'            [[C23.{P}.{role}.sends_only_permitted_messages]] final(self).{SF} == old(self).{SF},')
    o(f'            [[C23.{P}.{role}.refuses_to_send_unpermitted_messages]] !old(self).may_send(*msg) ==> r is Err && final(self).log() == old(self).log(),')
    o(f'            [[C23.{P}.{role}.sent_message_is_permitted_and_logged]] r is Ok ==> old(self).may_send(*msg) && final(self).log() == old(self).log().push(Ev {{ sent: true, msg: *msg }}),')
    o('//@@ end')
    o(f'//@@ fn {f} | {ctx} | recv_message | ret=r | vis=pub')
    o(plex)
    for rw in r.get('rewrites', {}).get('recv_message', []):
        o(f'//@@ rw {rw}')
    o('//@@ spec')
    o('        ensures')
    o(f'            [[C23.{P}.{role}.accepts_only_permitted_messages]] final(self).{SF} == old(self).{SF},')
    o(f'            [[C23.{P}.{role}.accepted_message_is_permitted_and_logged]] r matches Ok(m) ==> old(self).may_recv(m) && final(self).log() == old(self).log().push(Ev {{ sent: false, msg: m }}),')
    o(f'            [[C23.{P}.{role}.does_not_receive_while_it_has_agency]] agency(old(self).{SF}) is {me} ==> r is Err && final(self).log() == old(self).log(),')
    o('//@@ end')
    for name in r.get('send1', []) + r.get('recv1', []):
        d = 'true' if name in r.get('send1', []) else 'false'
        fn(name, ['ensures', f'    [[C23.{P}.{role}.{name}.follows_spec_transition]] r is Ok ==> Self::step1(old(self), final(self), {d}),',
                  f'    [[C23.{P}.{role}.{name}.error_leaves_state]] r is Err ==> final(self).{SF} == old(self).{SF},'],
           extra=r.get('hints', {}).get(name))
    for name in r.get('sendrecv', []) + r.get('recvsend', []):
        d = 'true, false' if name in r.get('sendrecv', []) else 'false, true'
        fn(name, ['ensures', f'    [[C23.{P}.{role}.{name}.follows_two_spec_transitions]] r is Ok ==> Self::step2(old(self), final(self), {d}),'],
           extra=r.get('hints', {}).get(name))
    for name, spec in r.get('custom', {}).items():
        fn(name, spec, extra=r.get('hints', {}).get(name))
    o('}')
    o('}')
    return out


def gen(p):
    P = p['name']
    pf = f"{BASE}/{p['dir']}/protocol.rs"
    out = []
    o = out.append
    o(f'//@@ unit C23_{P}')
    o('//@@ property C23')
    o(f"//@@ min-verified {p.get('min_verified', 20)}")
    o(f"// GENERATED by tools/gen_c23.py — contract unit for C23, mini-protocol `{P}` of the original stack: client and server agents")
    o(f"// against the specification state machine. Real code: {BASE}/{p['dir']}/{{protocol,client,server}}.rs, bodies verbatim")
    o('// (R6 async/.await removed, R1 logging removed, R12 `map_err(Variant)` eta-expanded).')
    o('use vstd::prelude::*;')
    o('verus! {')
    o('global size_of usize == 8;')
    o('//@@ include _plexer_stub.inc')
    for ln in p.get('prelude', []):
        o(ln)
    for it in p['types']:
        if it[1] == 'State' and p.get('state_partial_eq'):
            o('// the source derives PartialEq for State; kept, with the assumed meaning "structural equality"')
            o('#[derive(PartialEq)]')
        o(f'//@@ item {it[2] if len(it) > 2 and it[2].endswith(".rs") else pf} | {it[0]} | {it[1]}')
        for rw in (it[3:] if len(it) > 2 and it[2].endswith('.rs') else it[2:]):
            o(f'//@@ rw {rw}')
        o('//@@ end')
    if p.get('state_partial_eq'):
        o('impl vstd::std_specs::cmp::PartialEqSpecImpl for State {')
        o('    open spec fn obeys_eq_spec() -> bool { true }')
        o('    open spec fn eq_spec(&self, other: &Self) -> bool { *self == *other }')
        o('}')
    for ln in p.get('after_types', []):
        o(ln)
    o('')
    o(f"// ---- specification: {p['spec_comment']}")
    G = p.get('generics', '')
    o(f'pub open spec fn agency(s: State) -> Agency {{ {p["agency"]} }}')
    o(f"pub open spec fn trans{G}(s: State, m: {p['msg']}{G}) -> Option<State> {{")
    for ln in p['trans']:
        o('    ' + ln)
    o('}')
    o('')
    if 'client' in p:
        out += role_block(p, 'client')
    o('')
    if 'server' in p:
        out += role_block(p, 'server')
    o('')
    c = p['canary']
    o('// ---- vacuity guard: canary')
    o('pub struct Canary { pub s: State }')
    o('impl Canary {')
    o(f"//@@ fn {BASE}/{p['dir']}/{c['file']} | {c['ctx']} | has_agency | ret=r | rename=has_agency_canary | canary=1")
    o(f"//@@ rw R8 /{c['self_rx']}/self.s/")
    o('//@@ spec')
    o(f"        ensures [[C23.{P}.canary]] r == !(agency(self.s) is {c['me']}),")
    o('//@@ end')
    o('}')
    o('')
    o('} // verus!')
    o('fn main() {}')
    open(os.path.join(V, 'contracts', f'C23_{P}.vt'), 'w').write('\n'.join(out) + '\n')
    print('wrote', f'C23_{P}.vt')


PROTOS = {}

PROTOS['keepalive'] = dict(
    name='keepalive', dir='keepalive', msg='Message',
    types=[('type', 'Cookie'), ('enum', 'State'), ('enum', 'Message')],
    after_types=[
        'impl Clone for State { fn clone(&self) -> (r: Self) ensures r == *self { match self { State::Client => State::Client, State::Server(c) => State::Server(*c), State::Done => State::Done } } }',
        '/// cookie generation (rand::rng().random::<Cookie>()): any value',
        '#[verifier::external_body]',
        'pub fn random_cookie() -> (r: Cookie) { unimplemented!() }',
    ],
    spec_comment='keep-alive: StClient --MsgKeepAlive(c)--> StServer(c); StServer --MsgKeepAliveResponse--> StClient; StClient --MsgDone--> StDone. Agency: StClient client, StServer server.',
    agency='match s { State::Client => Agency::Client, State::Server(_) => Agency::Server, State::Done => Agency::Nobody }',
    trans=['match (s, m) {',
           '    (State::Client, Message::KeepAlive(c)) => Some(State::Server(c)),',
           '    (State::Server(_), Message::ResponseKeepAlive(_)) => Some(State::Client),',
           '    (State::Client, Message::Done) => Some(State::Done),',
           '    _ => None,',
           '}'],
    client=dict(struct='Client', err='ClientError', initial='State::Client',
                fields_rw='/\\(State, multiplexer::ChannelBuffer\\)/(pub State, pub multiplexer::ChannelBuffer)/',
                send1=['send_keepalive_request'], recv1=['recv_keepalive_response'], sendrecv=['keepalive_roundtrip'],
                rewrites={'send_keepalive_request': ['R10 /rand::rng\\(\\)\\.random::<Cookie>\\(\\)/random_cookie()/']}),
    server=dict(struct='Server', err='ServerError', initial='State::Client',
                fields_rw='/\\(State, multiplexer::ChannelBuffer\\)/(pub State, pub multiplexer::ChannelBuffer)/',
                recv1=['recv_keepalive_request'],
                custom={'send_keepalive_response': [
                    'ensures',
                    '    [[C23.keepalive.server.send_keepalive_response.follows_spec_transition]]',
                    '    r is Ok && old(self).0 is Server ==> Self::step1(old(self), final(self), true),',
                    '    !(old(self).0 is Server) ==> final(self).0 == old(self).0 && final(self).log() == old(self).log(),',
                    '    r is Err ==> final(self).0 == old(self).0,'],
                    'keepalive_roundtrip': ['ensures', '    [[C23.keepalive.server.roundtrip.done]] r is Ok && final(self).0 is Done ==> Self::step1(old(self), final(self), false),', '    [[C23.keepalive.server.roundtrip.two_steps]] r is Ok && !(final(self).0 is Done) ==> Self::step2(old(self), final(self), false, true),']}),
    canary=dict(file='server.rs', ctx='impl Server', self_rx='self\\.0', me='Client'),
)


TUPLE2 = '/\\(State, multiplexer::ChannelBuffer\\)/(pub State, pub multiplexer::ChannelBuffer)/'
POINT = [('enum', 'Point', 'pallas-network/src/miniprotocols/common.rs')]

PROTOS['blockfetch'] = dict(
    name='blockfetch', dir='blockfetch', msg='Message',
    types=POINT + [('enum', 'State'), ('enum', 'Message')],
    spec_comment='block-fetch: StIdle --MsgRequestRange--> StBusy; StIdle --MsgClientDone--> StDone; StBusy --MsgStartBatch--> StStreaming; '
                 'StBusy --MsgNoBlocks--> StIdle; StStreaming --MsgBlock--> StStreaming; StStreaming --MsgBatchDone--> StIdle. '
                 'Agency: StIdle client; StBusy, StStreaming server.',
    agency='match s { State::Idle => Agency::Client, State::Busy => Agency::Server, State::Streaming => Agency::Server, State::Done => Agency::Nobody }',
    trans=['match (s, m) {',
           '    (State::Idle, Message::RequestRange { .. }) => Some(State::Busy),',
           '    (State::Idle, Message::ClientDone) => Some(State::Done),',
           '    (State::Busy, Message::StartBatch) => Some(State::Streaming),',
           '    (State::Busy, Message::NoBlocks) => Some(State::Idle),',
           '    (State::Streaming, Message::Block { .. }) => Some(State::Streaming),',
           '    (State::Streaming, Message::BatchDone) => Some(State::Idle),',
           '    _ => None,',
           '}'],
    client=dict(struct='Client', err='ClientError', initial='State::Idle', fields_rw=TUPLE2,
                items=[('type', 'Body'), ('type', 'Range'), ('type', 'HasBlocks')],
                send1=['send_request_range', 'send_done'], recv1=['recv_while_busy', 'recv_while_streaming'], sendrecv=['request_range']),
    server=dict(struct='Server', err='ServerError', initial='State::Idle', fields_rw=TUPLE2,
                items=[('struct', 'BlockRequest')], prelude_use='use super::client::{Body, Range};',
                send1=['send_start_batch', 'send_no_blocks', 'send_block', 'send_batch_done'], recv1=['recv_while_idle']),
    canary=dict(file='server.rs', ctx='impl Server', self_rx='self\\.state\\(\\)', me='Client'),
)


FRAG = ['/// pallas_codec::Fragment (encode + decode): a marker here, every type is one',
        'pub trait Fragment { }',
        'impl<T> Fragment for T { }',
        'use std::marker::PhantomData;']
TUPLE3 = lambda g: '/\\(State, multiplexer::ChannelBuffer, PhantomData<%s>\\)/(pub State, pub multiplexer::ChannelBuffer, pub PhantomData<%s>)/' % (g, g)

PROTOS['chainsync'] = dict(
    name='chainsync', dir='chainsync', msg='Message', generics='<O>',
    prelude=FRAG,
    types=POINT + [('struct', 'Tip'), ('type', 'IntersectResponse'), ('enum', 'State'), ('enum', 'Message')],
    spec_comment='chain-sync: StIdle --MsgRequestNext--> StCanAwait; StIdle --MsgFindIntersect--> StIntersect; StIdle --MsgDone--> StDone; '
                 'StCanAwait --MsgAwaitReply--> StMustReply; StCanAwait|StMustReply --MsgRollForward|MsgRollBackward--> StIdle; '
                 'StIntersect --MsgIntersectFound|MsgIntersectNotFound--> StIdle. Agency: StIdle client; StCanAwait, StMustReply, StIntersect server.',
    agency='match s { State::Idle => Agency::Client, State::CanAwait => Agency::Server, State::MustReply => Agency::Server, State::Intersect => Agency::Server, State::Done => Agency::Nobody }',
    trans=['match (s, m) {',
           '    (State::Idle, Message::RequestNext) => Some(State::CanAwait),',
           '    (State::Idle, Message::FindIntersect(_)) => Some(State::Intersect),',
           '    (State::Idle, Message::Done) => Some(State::Done),',
           '    (State::CanAwait, Message::AwaitReply) => Some(State::MustReply),',
           '    (State::CanAwait, Message::RollForward(_, _)) => Some(State::Idle),',
           '    (State::CanAwait, Message::RollBackward(_, _)) => Some(State::Idle),',
           '    (State::MustReply, Message::RollForward(_, _)) => Some(State::Idle),',
           '    (State::MustReply, Message::RollBackward(_, _)) => Some(State::Idle),',
           '    (State::Intersect, Message::IntersectFound(_, _)) => Some(State::Idle),',
           '    (State::Intersect, Message::IntersectNotFound(_)) => Some(State::Idle),',
           '    _ => None,',
           '}'],
    client=dict(struct='Client', err='ClientError', initial='State::Idle', fields_rw=TUPLE3('O'),
                where='where Message<O>: Fragment', ctx='impl<O> Client<O>',
                items=[('enum', 'NextResponse')],
                send1=['send_find_intersect', 'send_request_next', 'send_done'],
                recv1=['recv_intersect_response', 'recv_while_can_await', 'recv_while_must_reply'],
                sendrecv=['find_intersect', 'request_next']),
    server=dict(struct='Server', err='ServerError', initial='State::Idle', fields_rw=TUPLE3('O'),
                where='where Message<O>: Fragment', ctx='impl<O> Server<O>',
                items=[('enum', 'ClientRequest')],
                send1=['send_intersect_not_found', 'send_intersect_found', 'send_roll_forward', 'send_roll_backward', 'send_await_reply'],
                recv1=['recv_while_idle']),
    canary=dict(file='server.rs', ctx='impl<O> Server<O>', self_rx='self\\.state\\(\\)', me='Client'),
)


TUPLE4 = '/\\(\\s*State,\\s*multiplexer::ChannelBuffer,\\s*PhantomData<TxId>,\\s*PhantomData<TxBody>,\\s*\\)/(pub State, pub multiplexer::ChannelBuffer, pub PhantomData<TxId>, pub PhantomData<TxBody>)/'

PROTOS['txsubmission'] = dict(
    name='txsubmission', dir='txsubmission', msg='Message', generics='<TxId, TxBody>', err_in_protocol=True, state_partial_eq=True,
    prelude=FRAG,
    types=[('enum', 'State'), ('type', 'Blocking'), ('type', 'TxCount'), ('type', 'TxSizeInBytes'), ('struct', 'TxIdAndSize'),
           ('enum', 'Error'), ('enum', 'Message')],
    spec_comment='tx-submission (v2): StInit --MsgInit--> StIdle; StIdle --MsgRequestTxIds(blocking)--> StTxIds(Blocking|NonBlocking); '
                 'StIdle --MsgRequestTxs--> StTxs; StTxIds* --MsgReplyTxIds--> StIdle; StTxs --MsgReplyTxs--> StIdle; StTxIdsBlocking --MsgDone--> StDone. '
                 'Agency: StInit, StTxIds*, StTxs client (the transaction provider); StIdle server.',
    agency='match s { State::Init => Agency::Client, State::Idle => Agency::Server, State::TxIdsNonBlocking => Agency::Client, State::TxIdsBlocking => Agency::Client, State::Txs => Agency::Client, State::Done => Agency::Nobody }',
    trans=['match (s, m) {',
           '    (State::Init, Message::Init) => Some(State::Idle),',
           '    (State::Idle, Message::RequestTxIds(blocking, _, _)) => Some(if blocking { State::TxIdsBlocking } else { State::TxIdsNonBlocking }),',
           '    (State::Idle, Message::RequestTxs(_)) => Some(State::Txs),',
           '    (State::TxIdsBlocking, Message::ReplyTxIds(_)) => Some(State::Idle),',
           '    (State::TxIdsNonBlocking, Message::ReplyTxIds(_)) => Some(State::Idle),',
           '    (State::Txs, Message::ReplyTxs(_)) => Some(State::Idle),',
           '    (State::TxIdsBlocking, Message::Done) => Some(State::Done),',
           '    _ => None,',
           '}'],
    client=dict(struct='GenericClient', err='Error', initial='State::Init', fields_rw=TUPLE4,
                where='where Message<TxId, TxBody>: Fragment', ctx='impl<TxId, TxBody> GenericClient<TxId, TxBody>',
                items=[('enum', 'Request')],
                rewrites={'has_agency': ['R10 /!matches!\\(self\\.state\\(\\), State::Idle\\)/(match self.state() { State::Idle => false, _ => true })/']},
                send1=['send_init', 'reply_tx_ids', 'reply_txs', 'send_done'], recv1=['next_request']),
    server=dict(struct='GenericServer', err='Error', initial='State::Init', fields_rw=TUPLE4,
                where='where Message<TxId, TxBody>: Fragment', ctx='impl<TxId, TxBody> GenericServer<TxId, TxBody>',
                items=[('enum', 'Reply')],
                rewrites={'has_agency': ['R10 /matches!\\(self\\.state\\(\\), State::Idle\\)/(match self.state() { State::Idle => true, _ => false })/']},
                send1=['acknowledge_and_request_tx_ids', 'request_txs'], recv1=['wait_for_init', 'receive_next_reply']),
    canary=dict(file='server.rs', ctx='impl<TxId, TxBody> GenericServer<TxId, TxBody>', self_rx='self\\.state\\(\\)', me='Client'),
)


PROTOS['handshake'] = dict(
    name='handshake', dir='handshake', msg='Message', generics='<D>', err_in_protocol=True,
    prelude=FRAG + ['/// VersionTable<T> (a HashMap of version number -> version data) is an opaque payload for the agents',
                    'pub struct VersionTable<T> { pub opaque: Vec<(u64, T)> }'],
    types=[('enum', 'Error'), ('type', 'VersionNumber'), ('enum', 'RefuseReason'), ('enum', 'State'),
           ('enum', 'Message', r'R8 /\nwhere\n    D: Debug \+ Clone,\n/\n\n\n/')],
    spec_comment='handshake: StPropose --MsgProposeVersions--> StConfirm; StConfirm --MsgAcceptVersion|MsgRefuse|MsgQueryReply--> StDone. '
                 'Agency: StPropose client, StConfirm server.',
    agency='match s { State::Propose => Agency::Client, State::Confirm => Agency::Server, State::Done => Agency::Nobody }',
    trans=['match (s, m) {',
           '    (State::Propose, Message::Propose(_)) => Some(State::Confirm),',
           '    (State::Confirm, Message::Accept(_, _)) => Some(State::Done),',
           '    (State::Confirm, Message::Refuse(_)) => Some(State::Done),',
           '    (State::Confirm, Message::QueryReply(_)) => Some(State::Done),',
           '    _ => None,',
           '}'],
    client=dict(struct='Client', err='Error', initial='State::Propose', fields_rw=TUPLE3('D'),
                ctx='impl<D> Client<D>', items=[('enum', 'Confirmation', 'R8 /<D: Debug \\+ Clone>/<D>/')],
                rewrites={'has_agency': ['R10 /matches!\\(self\\.state\\(\\), State::Propose\\)/(match self.state() { State::Propose => true, _ => false })/']},
                send1=['send_propose'], recv1=['recv_while_confirm'], sendrecv=['handshake']),
    server=dict(struct='Server', err='Error', initial='State::Propose', fields_rw=TUPLE3('D'),
                ctx='impl<D> Server<D>',
                rewrites={'has_agency': ['R10 /matches!\\(self\\.state\\(\\), State::Confirm\\)/(match self.state() { State::Confirm => true, _ => false })/']},
                send1=['accept_version', 'refuse'], recv1=['receive_proposed_versions']),
    canary=dict(file='server.rs', ctx='impl<D> Server<D>', self_rx='self\\.state\\(\\)', me='Client'),
)


PROTOS['peersharing'] = dict(
    name='peersharing', dir='peersharing', msg='Message',
    prelude=['/// PeerAddress (IPv4/IPv6 + port) is an opaque payload for the agents', 'pub struct PeerAddress { pub opaque: u8 }'],
    types=[('type', 'Amount'), ('enum', 'State'), ('enum', 'Message')],
    spec_comment='peer-sharing: StIdle --MsgShareRequest(n)--> StBusy(n); StBusy --MsgSharePeers--> StIdle; StIdle --MsgDone--> StDone. '
                 'Agency: StIdle client, StBusy server.',
    agency='match s { State::Idle => Agency::Client, State::Busy(_) => Agency::Server, State::Done => Agency::Nobody }',
    trans=['match (s, m) {',
           '    (State::Idle, Message::ShareRequest(n)) => Some(State::Busy(n)),',
           '    (State::Busy(_), Message::SharePeers(_)) => Some(State::Idle),',
           '    (State::Idle, Message::Done) => Some(State::Done),',
           '    _ => None,',
           '}'],
    client=dict(struct='Client', err='ClientError', initial='State::Idle', fields_rw=TUPLE2,
                send1=['send_share_request', 'send_done'], recv1=['recv_peer_addresses']),
    server=dict(struct='Server', err='ServerError', initial='State::Idle', fields_rw=TUPLE2,
                send1=['send_peer_addresses'], recv1=['recv_share_request']),
    canary=dict(file='server.rs', ctx='impl Server', self_rx='&self\\.0', me='Client'),
)


PROTOS['localstate'] = dict(
    name='localstate', dir='localstate', msg='Message',
    prelude=['/// AnyCbor (an opaque CBOR item) is an opaque payload for the agents', 'pub struct AnyCbor { pub opaque: u8 }',
             'pub mod pallas_codec { pub mod minicbor { pub mod decode { pub struct Error { pub m: u8 } } } }'],
    types=POINT + [('enum', 'State'), ('enum', 'AcquireFailure'), ('enum', 'Message')],
    spec_comment='local-state-query: StIdle --MsgAcquire--> StAcquiring; StIdle --MsgDone--> StDone; StAcquiring --MsgAcquired--> StAcquired; '
                 'StAcquiring --MsgFailure--> StIdle; StAcquired --MsgQuery--> StQuerying; StAcquired --MsgReAcquire--> StAcquiring; '
                 'StAcquired --MsgRelease--> StIdle; StQuerying --MsgResult--> StAcquired. Agency: StIdle, StAcquired client; StAcquiring, StQuerying server.',
    agency='match s { State::Idle => Agency::Client, State::Acquired => Agency::Client, State::Acquiring => Agency::Server, State::Querying => Agency::Server, State::Done => Agency::Nobody }',
    trans=['match (s, m) {',
           '    (State::Idle, Message::Acquire(_)) => Some(State::Acquiring),',
           '    (State::Idle, Message::Done) => Some(State::Done),',
           '    (State::Acquiring, Message::Acquired) => Some(State::Acquired),',
           '    (State::Acquiring, Message::Failure(_)) => Some(State::Idle),',
           '    (State::Acquired, Message::Query(_)) => Some(State::Querying),',
           '    (State::Acquired, Message::ReAcquire(_)) => Some(State::Acquiring),',
           '    (State::Acquired, Message::Release) => Some(State::Idle),',
           '    (State::Querying, Message::Result(_)) => Some(State::Acquired),',
           '    _ => None,',
           '}'],
    client=dict(struct='GenericClient', err='ClientError', initial='State::Idle', fields_rw=TUPLE2,
                struct_rw=[], ctx='impl GenericClient',
                module_lines=['impl vstd::std_specs::convert::FromSpecImpl<AcquireFailure> for ClientError {',
                              '    open spec fn obeys_from_spec() -> bool { false }',
                              '    open spec fn from_spec(x: AcquireFailure) -> Self { ClientError::AcquirePointTooOld }',
                              '}',
                              'impl From<AcquireFailure> for ClientError {',
                              '//@@ fn pallas-network/src/miniprotocols/localstate/client.rs | impl From<AcquireFailure> for ClientError | from | ret=r',
                              '//@@ spec',
                              '        ensures r is AcquirePointTooOld || r is AcquirePointNotFound,',
                              '//@@ end',
                              '}'],
                rewrites={'send_query': ['R10 /Ok\\(msg\\)/Ok(msg)/']},
                send1=['send_acquire', 'send_reacquire', 'send_release', 'send_done', 'send_query'],
                recv1=['recv_while_querying'],
                sendrecv=['query_any'],
                custom={'recv_while_acquiring': [
                    'ensures',
                    '    [[C23.localstate.client.recv_while_acquiring.follows_spec_transition]] r is Ok ==> Self::step1(old(self), final(self), false),',
                    '    // MsgFailure moves to StIdle as the specification says and is reported to the caller as an error value',
                    '    [[C23.localstate.client.recv_while_acquiring.error_leaves_state_or_is_failure_reply]]',
                    '    r is Err ==> (final(self).0 == old(self).0 || Self::step1(old(self), final(self), false)),'],
                    'acquire': ['ensures [[C23.localstate.client.acquire.follows_two_spec_transitions]] r is Ok ==> Self::step2(old(self), final(self), true, false),']}),
    server=dict(struct='GenericServer', err='Error', initial='State::Idle', fields_rw=TUPLE2, ctx='impl GenericServer',
                items=[('struct', 'ClientAcquireRequest'), ('enum', 'ClientQueryRequest')],
                send1=['send_failure', 'send_acquired', 'send_result'], recv1=['recv_while_idle', 'recv_while_acquired']),
    canary=dict(file='client.rs', ctx='impl GenericClient', self_rx='self\\.state\\(\\)', me='Server'),
)


NAMED4 = r'/\n    state: State,\n    muxer: multiplexer::ChannelBuffer,\n    pd_tx: PhantomData<Tx>,\n    pd_reject: PhantomData<Reject>,\n/\n    pub state: State,\n    pub muxer: multiplexer::ChannelBuffer,\n    pub pd_tx: PhantomData<Tx>,\n    pub pd_reject: PhantomData<Reject>,\n/'
PD = ['R10 /pd_tx: Default::default\\(\\)/pd_tx: PhantomData/', 'R10 /pd_reject: Default::default\\(\\)/pd_reject: PhantomData/']

PROTOS['localtxsubmission'] = dict(
    name='localtxsubmission', dir='localtxsubmission', msg='Message', generics='<Tx, Reject>', err_in_protocol=True,
    prelude=FRAG,
    types=[('enum', 'Error'), ('enum', 'State'), ('enum', 'Message')],
    spec_comment='local-tx-submission: StIdle --MsgSubmitTx--> StBusy; StBusy --MsgAcceptTx|MsgRejectTx--> StIdle; StIdle --MsgDone--> StDone. '
                 'Agency: StIdle client, StBusy server.',
    agency='match s { State::Idle => Agency::Client, State::Busy => Agency::Server, State::Done => Agency::Nobody }',
    trans=['match (s, m) {',
           '    (State::Idle, Message::SubmitTx(_)) => Some(State::Busy),',
           '    (State::Idle, Message::Done) => Some(State::Done),',
           '    (State::Busy, Message::AcceptTx) => Some(State::Idle),',
           '    (State::Busy, Message::RejectTx(_)) => Some(State::Idle),',
           '    _ => None,',
           '}'],
    client=dict(struct='GenericClient', err='Error', initial='State::Idle', fields_rw=NAMED4, sf='state', cf='muxer', plex='ChannelError',
                where='where Message<Tx, Reject>: Fragment', ctx='impl<Tx, Reject> GenericClient<Tx, Reject>',
                items=[('enum', 'Response')], rewrites={'new': PD},
                send1=['send_submit_tx', 'terminate_gracefully'], recv1=['recv_submit_tx_response'], sendrecv=['submit_tx']),
    server=dict(struct='GenericServer', err='Error', initial='State::Idle', fields_rw=NAMED4, sf='state', cf='muxer', plex='ChannelError',
                where='where Message<Tx, Reject>: Fragment', ctx='impl<Tx, Reject> GenericServer<Tx, Reject>',
                prelude_use='use super::client::Response;',
                items=[('enum', 'Request')], rewrites={'new': PD},
                send1=['send_submit_tx_response'], recv1=['recv_next_request']),
    canary=dict(file='client.rs', ctx='impl<Tx, Reject> GenericClient<Tx, Reject>', self_rx='self\\.state\\(\\)', me='Server'),
)


PROTOS['txmonitor'] = dict(
    name='txmonitor', dir='txmonitor', msg='Message', err_in_protocol=False,
    prelude=['/// payload types of the local-tx-monitor messages the agent only passes through',
             'pub struct TagWrap<T, const N: u64>(pub T);',
             'pub mod pallas_codec { pub mod utils { pub struct Bytes { pub opaque: u8 } } }'],
    types=[('type', 'Slot'), ('type', 'TxId'), ('type', 'Era'), ('type', 'TxBody'), ('type', 'Tx'), ('enum', 'State'),
           ('struct', 'MempoolSizeAndCapacity'), ('enum', 'Message')],
    spec_comment='local-tx-monitor: StIdle --MsgAcquire--> StAcquiring; StIdle --MsgDone--> StDone; StAcquiring --MsgAcquired--> StAcquired; '
                 'StAcquired --MsgAwaitAcquire (= MsgAcquire on the wire, tag 1)--> StAcquiring; StAcquired --MsgRelease--> StIdle; '
                 'StAcquired --MsgNextTx|MsgHasTx|MsgGetSizes--> StBusy; StBusy --MsgReplyNextTx|MsgReplyHasTx|MsgReplyGetSizes--> StAcquired. '
                 'Agency: StIdle, StAcquired client; StAcquiring, StBusy server. (The library keeps one Busy state for the three queries; '
                 'the pairing of a reply with its query kind is therefore not part of this table. Its `AwaitAcquire` variant — a guessed label 4 — is never permitted.)',
    agency='match s { State::Idle => Agency::Client, State::Acquired => Agency::Client, State::Acquiring => Agency::Server, State::Busy => Agency::Server, State::Done => Agency::Nobody }',
    trans=['match (s, m) {',
           '    (State::Idle, Message::Acquire) => Some(State::Acquiring),',
           '    (State::Idle, Message::Done) => Some(State::Done),',
           '    (State::Acquiring, Message::Acquired(_)) => Some(State::Acquired),',
           '    (State::Acquired, Message::Acquire) => Some(State::Acquiring),',
           '    (State::Acquired, Message::Release) => Some(State::Idle),',
           '    (State::Acquired, Message::RequestHasTx(_)) => Some(State::Busy),',
           '    (State::Acquired, Message::RequestNextTx) => Some(State::Busy),',
           '    (State::Acquired, Message::RequestSizeAndCapacity) => Some(State::Busy),',
           '    (State::Busy, Message::ResponseHasTx(_)) => Some(State::Acquired),',
           '    (State::Busy, Message::ResponseNextTx(_)) => Some(State::Acquired),',
           '    (State::Busy, Message::ResponseSizeAndCapacity(_)) => Some(State::Acquired),',
           '    _ => None,',
           '}'],
    client=dict(struct='Client', err='Error', initial='State::Idle', fields_rw=TUPLE2,
                send1=['send_acquire', 'send_request_has_tx', 'send_request_next_tx', 'send_request_size_and_capacity', 'release'],
                recv1=['recv_while_acquiring', 'recv_while_requesting_has_tx', 'recv_while_requesting_next_tx', 'recv_while_requesting_size_and_capacity'],
                sendrecv=['acquire', 'query_has_tx', 'query_next_tx', 'query_size_and_capacity']),
    canary=dict(file='client.rs', ctx='impl Client', self_rx='&self\\.0', me='Server'),
)

if __name__ == '__main__':
    sel = sys.argv[1:] or list(PROTOS)
    for k in sel:
        gen(PROTOS[k])
