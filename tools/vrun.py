#!/usr/bin/env python3
"""vrun.py <unit> [seed] — developer helper: build one unit from the current tree, run Verus, print a compact report."""
import sys, os, json
sys.path.insert(0, os.path.dirname(os.path.abspath(__file__)))
import engine
r = engine.run_v_unit(sys.argv[1], 'quick', int(sys.argv[2]) if len(sys.argv) > 2 else 0)
print('status', r['status'], 'verified', r['verified'], 'errors', r['errors'], 'smt_ms', r['smt_ms'], 'wall', round(r['wall_s'], 1))
for u in r['undecided']:
    print('UNDECIDED', u[:1500])
if r['status'] == 'undecided':
    for ln in open(os.path.join(engine.BUILD, 'v', sys.argv[1], 'verus.stderr')):
        ln = ln.strip()
        if ln.startswith('{'):
            d = json.loads(ln)
            if d.get('level') == 'error' and d.get('rendered') and 'aborting' not in d['message']:
                print(d['rendered'][:1200])
for f in r['failures']:
    print('FAIL', f['obligation'], '|', f['message'])
    for w in f['where'][:4]:
        print('    ', w['kind'], w['file'], w['line'], 'gen', w['gen_line'], '|', w['text'][:140], '|', w.get('label'))
slow = sorted(r['per_function'], key=lambda x: -x['ms'])[:5]
print('slowest', [(s['function'].split('::')[-1], s['ms']) for s in slow])
