#!/usr/bin/env python3
"""seedsave.py <ID> <name> <needs> <caught: yes|no> <by obligation / note>  — archives /tmp/seed/<ID> into /verif/seeded/<name>/"""
import json, os, shutil, sys
sid, name, needs, caught, note = sys.argv[1:6]
src = f'/tmp/seed/{sid}'
dst = f'/verif/seeded/{name}'
os.makedirs(dst, exist_ok=True)
for f in ('patch.diff', 'demo.rs', 'notes.md', 'property.txt'):
    if os.path.exists(os.path.join(src, f)):
        shutil.copy(os.path.join(src, f), os.path.join(dst, f))
meta = dict(property=sid, breaks=open(os.path.join(src, 'property.txt')).read().split('\n')[0] if os.path.exists(os.path.join(src, 'property.txt')) else sid,
            needs_to_manifest=needs, produced_by='independent sub-agent given only the property text and a scratch worktree',
            confirmed=['demo test fails with patch.diff applied and passes without it (run in the agent worktree by tools/seedtest.sh)',
                       'crate test suite still passes with the patch (apart from the added demo)',
                       f'git -C /repo apply patch.diff; ./check {sid}; git -C /repo checkout -- .'],
            caught_by_check=(caught == 'yes'), detail=note)
json.dump(meta, open(os.path.join(dst, 'meta.json'), 'w'), indent=1)
print('saved', dst)
