//! replay for C37 (Alonzo): the mainnet Plutus fixture alonzo2.tx with its redeemer list replaced by two redeemers
//! whose memory/step budgets are 2^63 each (sum 2^64 > any maximum). Scaffolding = the repository's own test.
//! Property: not accepted, and no panic. exit 1 otherwise.
#[path = "/repo/pallas-validate/tests/common.rs"]
#[allow(dead_code, unused_imports)]
mod common;
use common::*;
use pallas_codec::minicbor;
use pallas_codec::utils::Bytes;
use pallas_primitives::alonzo::{ExUnitPrices, ExUnits, Language, Nonce, NonceVariant, RationalNumber, Tx, Value, WitnessSet};
use pallas_traverse::{Era, MultiEraTx};
use pallas_validate::phase1::validate_txs;
use pallas_validate::utils::{AccountState, AlonzoProtParams, CertState, Environment, MultiEraProtocolParameters, UTxOs};

include!(concat!(env!("OUT_DIR"), "/alonzo2_scaffold.rs"));

fn main() {
    let cbor: Vec<u8> = cbor_to_bytes(include_str!("/repo/test_data/alonzo2.tx"));
    println!("unmodified fixture: {:?}", run_alonzo2(&cbor));
    let mtx: Tx = minted_tx_from_cbor(&cbor);
    let mut ws: WitnessSet = (*mtx.transaction_witness_set).clone();
    let mut reds = ws.redeemer.clone().expect("fixture has redeemers");
    let mut second = reds[0].clone();
    reds[0].ex_units = ExUnits { mem: 1 << 63, steps: 1 << 63 };
    second.ex_units = ExUnits { mem: 1 << 63, steps: 1 << 63 };
    reds.push(second);
    ws.redeemer = Some(reds);
    let mut out = vec![0x84u8];
    out.extend_from_slice(mtx.transaction_body.raw_cbor());
    out.extend(minicbor::to_vec(&ws).unwrap());
    out.push(if mtx.success { 0xf5 } else { 0xf4 });
    match &mtx.auxiliary_data { pallas_codec::utils::Nullable::Some(a) => out.extend_from_slice(a.raw_cbor()), _ => out.push(0xf6) }
    let r = std::panic::catch_unwind(|| run_alonzo2(&out));
    match r {
        Err(_) => { println!("VIOLATED: validation panicked while summing execution units (u64 overflow)"); std::process::exit(1) }
        Ok(Ok(())) => { println!("VIOLATED: accepted although the execution units sum to 2^64"); std::process::exit(1) }
        Ok(Err(e)) => { println!("two redeemers of 2^63 units each -> rejected: {e}"); std::process::exit(0) }
    }
}
