//! replays for C35 / C36 against the real pallas-validate phase-1 validator (Alonzo mainnet fixture alonzo1.tx,
//! scaffolding reused from /repo/pallas-validate/tests/common.rs). exit 1 if the property is violated.
//!   replay_validate c35_extra_invalid_witness
//!       the fixture plus two extra vkey witnesses: a valid one (fresh key) followed by an INVALID one.
//!       Property: accepted => every vkey witness is a valid signature.
//!   replay_validate c36_fee_boundary
//!       protocol parameters re-priced so that the fixture's fee is exactly a*size+b with size = traversal size;
//!       then the minimum is raised by one lovelace. Property: first accepted, second rejected.
#[path = "/repo/pallas-validate/tests/common.rs"]
#[allow(dead_code, unused_imports)]
mod common;

use common::*;
use pallas_codec::minicbor;
use pallas_codec::utils::Bytes;
use pallas_primitives::alonzo::{ExUnitPrices, ExUnits, Nonce, NonceVariant, RationalNumber, Tx, VKeyWitness, Value, WitnessSet};
use pallas_traverse::{Era, MultiEraTx};
use pallas_validate::phase1::validate_txs;
use pallas_validate::utils::{AccountState, AlonzoProtParams, CertState, Environment, MultiEraProtocolParameters, UTxOs};

fn params(minfee_a: u32, minfee_b: u32) -> AlonzoProtParams {
    let r = |n, d| RationalNumber { numerator: n, denominator: d };
    AlonzoProtParams {
        system_start: chrono::DateTime::parse_from_rfc3339("2017-09-23T21:44:51Z").unwrap(),
        epoch_length: 432000, slot_length: 1, minfee_a, minfee_b,
        max_block_body_size: 65536, max_transaction_size: 16384, max_block_header_size: 1100,
        key_deposit: 2000000, pool_deposit: 500000000, maximum_epoch: 18, desired_number_of_stake_pools: 500,
        pool_pledge_influence: r(3, 10), expansion_rate: r(3, 1000), treasury_growth_rate: r(2, 10),
        decentralization_constant: r(0, 1),
        extra_entropy: Nonce { variant: NonceVariant::NeutralNonce, hash: None },
        protocol_version: (6, 0), min_pool_cost: 340000000, ada_per_utxo_byte: 34482,
        cost_models_for_script_languages: Default::default(),
        execution_costs: ExUnitPrices { mem_price: r(577, 10000), step_price: r(721, 10000000) },
        max_tx_ex_units: ExUnits { mem: 10000000, steps: 10000000000 },
        max_block_ex_units: ExUnits { mem: 50000000, steps: 40000000000 },
        max_value_size: 5000, collateral_percentage: 150, max_collateral_inputs: 3,
    }
}

fn run(tx_bytes: &[u8], pp: AlonzoProtParams) -> Result<(), String> {
    let mtx: Tx = minted_tx_from_cbor(tx_bytes);
    let metx: MultiEraTx = MultiEraTx::from_alonzo_compatible(&mtx, Era::Alonzo);
    let utxos: UTxOs = mk_utxo_for_alonzo_compatible_tx(
        &mtx.transaction_body,
        &[(String::from("018c9ae79bca586ac36dcfdbbf4d2826c685a6969411c338c14973cc7f7bdb37706cd03711fe64747f8cfcfd574c7445cc0378781e77a8cc00"),
           Value::Coin(1549646822), None)],
    );
    let env = Environment {
        prot_params: MultiEraProtocolParameters::Alonzo(pp), prot_magic: 764824073, block_slot: 44237276, network_id: 1,
        acnt: Some(AccountState { treasury: 261_254_564_000_000, reserves: 0 }),
    };
    let mut cs = CertState::default();
    validate_txs(&[metx], &env, &utxos, &mut cs).map_err(|e| format!("{e:?}"))
}

fn main() {
    let case = std::env::args().nth(1).unwrap_or_default();
    let cbor: Vec<u8> = cbor_to_bytes(include_str!("/repo/test_data/alonzo1.tx"));
    let bad = match case.as_str() {
        "c35_extra_invalid_witness" => {
            let mtx: Tx = minted_tx_from_cbor(&cbor);
            let tx_hash = pallas_crypto::hash::Hasher::<256>::hash(mtx.transaction_body.raw_cbor());
            let sk = pallas_crypto::key::ed25519::SecretKey::new(rand::rng());
            let good_sig = sk.sign(tx_hash.as_ref());
            let mut ws: WitnessSet = (*mtx.transaction_witness_set).clone();
            let mut v = ws.vkeywitness.clone().unwrap_or_default();
            let n0 = v.len();
            v.push(VKeyWitness { vkey: Bytes::from(sk.public_key().as_ref().to_vec()), signature: Bytes::from(good_sig.as_ref().to_vec()) });
            v.push(VKeyWitness { vkey: Bytes::from(vec![7u8; 32]), signature: Bytes::from(vec![9u8; 64]) });
            ws.vkeywitness = Some(v);
            let mut out = vec![0x84u8];
            out.extend_from_slice(mtx.transaction_body.raw_cbor());
            out.extend(minicbor::to_vec(&ws).unwrap());
            out.push(if mtx.success { 0xf5 } else { 0xf4 });
            match &mtx.auxiliary_data { pallas_codec::utils::Nullable::Some(a) => out.extend_from_slice(a.raw_cbor()), _ => out.push(0xf6) }
            let r = run(&out, params(0, 0));
            println!("fixture has {n0} witness(es); appended one VALID extra witness and then one INVALID witness (garbage key/signature)");
            println!("real validator returns: {r:?}");
            let bad = r.is_ok();
            if bad { println!("VIOLATED: transaction accepted although its last vkey witness is not a valid signature"); }
            bad
        }
        "c36_fee_boundary" => {
            let mtx: Tx = minted_tx_from_cbor(&cbor);
            let fee = mtx.transaction_body.fee;
            let size = MultiEraTx::from_alonzo_compatible(&mtx, Era::Alonzo).size() as u64;
            let b = (fee - size) as u32;           // a = 1  =>  a*size + b == fee exactly
            let at_min = run(&cbor, params(1, b));
            let below_min = run(&cbor, params(1, b + 1));
            println!("fee={fee} traversal size={size}; min fee a*size+b with a=1,b={b} is exactly the fee -> {at_min:?}");
            println!("min fee raised by one lovelace (b={}) so the fee is one lovelace too low -> {below_min:?}", b + 1);
            let mut bad = false;
            if at_min.is_err() { println!("VIOLATED: a fee of exactly the minimum is rejected"); bad = true; }
            if below_min.is_ok() { println!("VIOLATED: a fee one lovelace below the minimum is accepted"); bad = true; }
            bad
        }
        "c36_fee_overflow" => {
            // a*size exceeds u32: minimum fee is 2^24 * size >> fee, so the transaction must be rejected
            let r = std::panic::catch_unwind(|| run(&cbor, params(1 << 24, 0)));
            match r {
                Err(_) => { println!("VIOLATED: the minimum-fee computation panicked (u32 overflow)"); true }
                Ok(Ok(())) => { println!("VIOLATED: accepted although the fee is far below a*size+b (u32 product wrapped)"); true }
                Ok(Err(e)) => { println!("rejected as expected: {e}"); false }
            }
        }
        _ => { eprintln!("unknown case"); std::process::exit(2) }
    };
    std::process::exit(if bad { 1 } else { 0 });
}
