//! replay for C43: builds corrupted immutable-DB index/chunk files in a scratch directory and reads them with
//! the real pallas-hardano readers; exit 1 if a reader panics instead of returning an error.
//!   replay_c43 secondary_backwards   primary index whose 2nd occupied offset lies before the reader position
//!   replay_c43 chunk_backwards       secondary index whose block offsets decrease
//!   replay_c43 chunk_huge            secondary index with a block offset > isize::MAX
//!   replay_c43 primary_4g            primary index with more than 2^32 entries (sparse 16 GiB file; slow)
use std::io::Write;
use std::path::Path;

fn primary_bytes(offsets: &[u32]) -> Vec<u8> {
    let mut v = vec![1u8];
    for o in offsets { v.extend_from_slice(&o.to_be_bytes()); }
    v
}
fn secondary_entry(block_offset: u64) -> Vec<u8> {
    let mut v = Vec::new();
    v.extend_from_slice(&block_offset.to_be_bytes());
    v.extend_from_slice(&[0u8; 2 + 2 + 4 + 32 + 8]);
    v
}
fn write(dir: &Path, name: &str, ext: &str, bytes: &[u8]) {
    let mut f = std::fs::File::create(dir.join(name).with_extension(ext)).unwrap();
    f.write_all(bytes).unwrap();
}

fn main() {
    let case = std::env::args().nth(1).unwrap_or_default();
    let dir = std::env::temp_dir().join(format!("verif_c43_{}_{}", case, std::process::id()));
    std::fs::create_dir_all(&dir).unwrap();
    let d2 = dir.clone();
    let res = std::panic::catch_unwind(move || {
        let dir = d2;
        match case.as_str() {
            "secondary_backwards" => {
                // entries: Occupied(0, off 0), Empty(1), Occupied(2, off 0)  -> second seek goes backwards
                write(&dir, "00000", "primary", &primary_bytes(&[0, 56, 0, 56]));
                let mut sec = secondary_entry(0);
                sec.extend(secondary_entry(10));
                write(&dir, "00000", "secondary", &sec);
                let r = pallas_hardano::storage::immutable::secondary::read_entries(&dir, "00000").unwrap();
                for e in r { println!("entry: {}", if e.is_ok() { "ok" } else { "error" }); }
            }
            "chunk_backwards" | "chunk_huge" => {
                write(&dir, "00000", "primary", &primary_bytes(&[0, 56, 112, 168]));
                let offs: [u64; 3] = if case == "chunk_backwards" { [0, 10, 5] } else { [0, (1u64 << 63) + 8, 0] };
                let mut sec = Vec::new();
                for o in offs { sec.extend(secondary_entry(o)); }
                write(&dir, "00000", "secondary", &sec);
                write(&dir, "00000", "chunk", &[0u8; 64]);
                let r = pallas_hardano::storage::immutable::chunk::read_blocks(&dir, "00000").unwrap();
                for b in r { println!("block: {}", match b { Ok(x) => format!("ok {} bytes", x.len()), Err(_) => "error".into() }); }
            }
            "primary_4g" => {
                let p = dir.join("00000.primary");
                let f = std::fs::File::create(&p).unwrap();
                f.set_len(1 + 4 * ((1u64 << 32) + 3)).unwrap();   // sparse: version 0 then 2^32+3 zero offsets
                drop(f);
                let r = pallas_hardano::storage::immutable::primary::Reader::open(std::fs::File::open(&p).unwrap()).unwrap();
                let mut n: u64 = 0;
                for e in r { e.unwrap(); n += 1; }
                println!("read {n} primary entries");
            }
            _ => { eprintln!("unknown case"); std::process::exit(2) }
        }
    });
    let _ = std::fs::remove_dir_all(&dir);
    match res {
        Ok(()) => { println!("no panic: corrupted input was reported through errors"); std::process::exit(0) }
        Err(_) => { println!("VIOLATED: the reader panicked on a corrupted file"); std::process::exit(1) }
    }
}
