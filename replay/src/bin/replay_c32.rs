//! replay for C32: `replay_c32 <mainnet|testnet|preview|preprod> <slot>` — evaluates the property on one
//! concrete slot against the real pallas-traverse code; exit 1 if the property is violated there.
use pallas_traverse::wellknown::GenesisValues;

fn main() {
    let a: Vec<String> = std::env::args().collect();
    let g = match a[1].as_str() {
        "mainnet" => GenesisValues::mainnet(),
        "testnet" => GenesisValues::testnet(),
        "preview" => GenesisValues::preview(),
        "preprod" => GenesisValues::preprod(),
        _ => panic!("unknown network"),
    };
    let slot: u64 = a[2].parse().unwrap();
    let byron = slot < g.shelley_known_slot;
    let epoch_slots = if byron {
        (g.byron_epoch_length / g.byron_slot_length) as u64
    } else {
        (g.shelley_epoch_length / g.shelley_slot_length) as u64
    };
    let (e, s) = g.absolute_slot_to_relative(slot);
    let back = g.relative_slot_to_absolute(e, s);
    let w0 = g.slot_to_wallclock(slot);
    let w1 = g.slot_to_wallclock(slot + 1);
    let len = if byron { g.byron_slot_length } else { g.shelley_slot_length } as i128;
    println!("network={} slot={slot} -> (epoch={e}, slot_in_epoch={s}); epoch size in slots={epoch_slots}; back={back}", a[1]);
    println!("wallclock(slot)={w0} wallclock(slot+1)={w1} era slot length={len}");
    let mut bad = false;
    if s >= epoch_slots { println!("VIOLATED: slot-in-epoch {s} >= epoch size {epoch_slots}"); bad = true; }
    if back != slot { println!("VIOLATED: converting back yields {back}, not {slot}"); bad = true; }
    if (w1 as i128) - (w0 as i128) != len { println!("VIOLATED: wall-clock step {} != slot length {len}", (w1 as i128) - (w0 as i128)); bad = true; }
    std::process::exit(if bad { 1 } else { 0 });
}
