//! replay for C37 against the real pallas-validate Conway validator: the mainnet Plutus-V3 fixture conway5.tx
//! (scaffolding identical to tests/conway.rs::successful_mainnet_tx_with_plutus_v3_script) validated with the
//! per-transaction execution-unit budget lowered to (0, 0). Property: a transaction whose redeemers need more
//! than the budget is NOT accepted. exit 1 if it is accepted.
#[path = "/repo/pallas-validate/tests/common.rs"]
#[allow(dead_code, unused_imports)]
mod common;
use common::*;
use pallas_codec::minicbor;
use pallas_codec::utils::{Bytes, CborWrap, KeepRaw};
use pallas_primitives::conway::{CostModels, DRepVotingThresholds, DatumOption, ExUnits, PlutusScript, PoolVotingThresholds, RationalNumber, ScriptRef, Tx, Value};
use pallas_traverse::MultiEraTx;
use std::collections::BTreeMap;
use pallas_validate::phase1::validate_txs;
use pallas_validate::utils::{AccountState, CertState, ConwayProtParams, Environment, MultiEraProtocolParameters, UTxOs};

include!(concat!(env!("OUT_DIR"), "/conway_params.rs"));

const SCRIPT: &str = "58a701010032323232323225333002323232323253330073370e900118041baa0011323322533300a3370e900018059baa00513232533300f30110021533300c3370e900018069baa00313371e6eb8c040c038dd50039bae3010300e37546020601c6ea800c5858dd7180780098061baa00516300c001300c300d001300937540022c6014601600660120046010004601000260086ea8004526136565734aae7555cf2ab9f5742ae89";

/// conway5.tx with the (needed) Plutus V3 script ALSO supplied in the witness set, so that the transaction
/// "has Plutus scripts" in the sense phase-1 tests for; body bytes (and hence signatures) are unchanged
fn with_witness_script(cbor: &[u8]) -> Vec<u8> {
    let mtx: Tx = conway_minted_tx_from_cbor(cbor);
    let mut ws: pallas_primitives::conway::WitnessSet = (*mtx.transaction_witness_set).clone();
    ws.plutus_v3_script = Some(pallas_primitives::NonEmptySet::from_vec(vec![PlutusScript::<3>(Bytes::from(hex::decode(SCRIPT).unwrap()))]).unwrap());
    let mut out = vec![0x84u8];
    out.extend_from_slice(mtx.transaction_body.raw_cbor());
    out.extend(minicbor::to_vec(&ws).unwrap());
    out.push(if mtx.success { 0xf5 } else { 0xf4 });
    match &mtx.auxiliary_data { pallas_codec::utils::Nullable::Some(a) => out.extend_from_slice(a.raw_cbor()), _ => out.push(0xf6) }
    out
}

fn run(budget: Option<(u64, u64)>, in_witness_set: bool) -> Result<(), String> {
    let orig = cbor_to_bytes(include_str!("/repo/test_data/conway5.tx"));
    let cbor_bytes: Vec<u8> = if in_witness_set { with_witness_script(&orig) } else { orig };
    let mtx: Tx = conway_minted_tx_from_cbor(&cbor_bytes);
    let metx: MultiEraTx = MultiEraTx::from_conway(&mtx);
    let datum_bytes = cbor_to_bytes("d8799f4568656c6c6fff");
    let datum_option = DatumOption::Data(CborWrap(minicbor::decode(&datum_bytes).unwrap()));
    let datum_option = minicbor::to_vec(datum_option).unwrap();
    let datum_option: KeepRaw<'_, DatumOption> = minicbor::decode(&datum_option).unwrap();
    let mut tx_outs_info: Vec<ConwayTxOutInfoMut> = vec![(
        String::from("71faae60072c45d121b6e58ae35c624693ee3dad9ea8ed765eb6f76f9f"), Value::Coin(2000000), Some(datum_option), None, Vec::new())];
    let mut utxos: UTxOs = mk_codec_safe_utxo_for_conway_tx(&mtx.transaction_body, &mut tx_outs_info);
    let mut ref_info: Vec<ConwayRefInputInfoMut> = vec![(
        String::from("71faae60072c45d121b6e58ae35c624693ee3dad9ea8ed765eb6f76f9f"), Value::Coin(1624870), None,
        Some(CborWrap(ScriptRef::PlutusV3Script(PlutusScript::<3>(Bytes::from(hex::decode("58a701010032323232323225333002323232323253330073370e900118041baa0011323322533300a3370e900018059baa00513232533300f30110021533300c3370e900018069baa00313371e6eb8c040c038dd50039bae3010300e37546020601c6ea800c5858dd7180780098061baa00516300c001300c300d001300937540022c6014601600660120046010004601000260086ea8004526136565734aae7555cf2ab9f5742ae89").unwrap()))))),
        Vec::new())];
    add_codec_safe_ref_input_conway(&mtx.transaction_body, &mut utxos, &mut ref_info);
    // collateral input value consistent with the body's collateral return and total collateral (the repository's test
    // uses a made-up value because, without witness-set scripts, phase-1 skips the collateral rules)
    let ret = match &mtx.transaction_body.collateral_return {
        Some(pallas_primitives::conway::TransactionOutput::PostAlonzo(o)) => match &o.value { Value::Coin(c) => *c, Value::Multiasset(c, _) => *c },
        Some(pallas_primitives::conway::TransactionOutput::Legacy(o)) => match &o.amount { pallas_primitives::alonzo::Value::Coin(c) => *c, pallas_primitives::alonzo::Value::Multiasset(c, _) => *c },
        None => 0 };
    let coll_in = ret + mtx.transaction_body.total_collateral.unwrap_or(mtx.transaction_body.fee * 2);
    let mut collateral_info: Vec<ConwayCollateralInfoMut> = vec![(
        String::from("015c5c318d01f729e205c95eb1b02d623dd10e78ea58f72d0c13f892b2e8904edc699e2f0ce7b72be7cec991df651a222e2ae9244eb5975cba"),
        Value::Coin(coll_in), None, None, Vec::new())];
    add_codec_safe_collateral_conway(&mtx.transaction_body, &mut utxos, &mut collateral_info);
    let mut pp = mk_mainnet_params_epoch_380();
    pp.minfee_a = 0; pp.minfee_b = 0;   // the added witness script makes the transaction longer; fees are not the subject here
    if let Some((mem, steps)) = budget { pp.max_tx_ex_units = ExUnits { mem, steps }; }
    if let Some(r) = &mtx.transaction_witness_set.redeemer {
        println!("redeemers in the transaction: {:?}", r.clone().unwrap());
    }
    let env = Environment { prot_params: MultiEraProtocolParameters::Conway(pp), prot_magic: 764824073, block_slot: 149807950, network_id: 1,
        acnt: Some(AccountState { treasury: 261_254_564_000_000, reserves: 0 }) };
    let mut cs = CertState::default();
    validate_txs(std::slice::from_ref(&metx), &env, &utxos, &mut cs).map_err(|e| format!("{e:?}"))
}

fn main() {
    // `witness_script`: the Plutus script is (also) in the witness set; `ref_script`: the unmodified fixture, whose
    // script is supplied only by a reference input
    let case = std::env::args().nth(1).unwrap_or_default();
    let in_ws = match case.as_str() { "witness_script" => true, "ref_script" => false, _ => { eprintln!("unknown case"); std::process::exit(2) } };
    let base = run(None, in_ws);
    println!("with the mainnet budget: {base:?}");
    let tight = run(Some((0, 0)), in_ws);
    println!("with max_tx_ex_units = (0, 0): {tight:?}");
    if base.is_ok() && tight.is_ok() {
        println!("VIOLATED: accepted although the redeemers' execution units exceed the per-transaction maximum");
        std::process::exit(1);
    }
    std::process::exit(0);
}
