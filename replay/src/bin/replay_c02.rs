//! replay for C02 against the real pallas-codec flat decoder; exit 1 if decoding panics instead of returning.
//!   replay_c02 bool_empty   Decoder::new(&[]).bool()
//!   replay_c02 word_long    eleven 0xff continuation bytes then 0x00 -> Decoder::word()
//!   replay_c02 bits8_zero   Decoder::new(&[]).bits8(0)   (and on a 1-byte buffer: shift by 8)
use pallas_codec::flat::de::Decoder;

fn main() {
    let case = std::env::args().nth(1).unwrap_or_default();
    let r = std::panic::catch_unwind(|| match case.as_str() {
        "bool_empty" => println!("bool on empty buffer -> {:?}", Decoder::new(&[]).bool().map_err(|e| e.to_string())),
        "word_long" => {
            let mut b = vec![0xffu8; 11];
            b.push(0);
            println!("word on 11 continuation bytes -> {:?}", Decoder::new(&b).word().map_err(|e| e.to_string()));
        }
        "bits8_zero" => {
            println!("bits8(0) on 1-byte buffer -> {:?}", Decoder::new(&[0xaa]).bits8(0).map_err(|e| e.to_string()));
            println!("bits8(0) on empty buffer -> {:?}", Decoder::new(&[]).bits8(0).map_err(|e| e.to_string()));
        }
        _ => { eprintln!("unknown case"); std::process::exit(2) }
    });
    match r {
        Ok(()) => { println!("no panic: decoding returned a value or an error"); std::process::exit(0) }
        Err(_) => { println!("VIOLATED: the decoder panicked"); std::process::exit(1) }
    }
}
