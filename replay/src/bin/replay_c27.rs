//! replay for C27 against the real pallas-network2 crate; exit 1 if the property is violated.
//!   replay_c27 rediscover_warm   : IncludePeer(A); Housekeeping (A becomes warm); IncludePeer(A) again
//!   replay_c27 demote_untracked  : max_peers = 1; discover A; demote_peer(B) for an unknown B; peer_deficit()
//!   replay_c27 ban_command       : IncludePeer(A); BanPeer(A); Housekeeping — no Connect(A) may be emitted
use pallas_network2::behavior::{InitiatorBehavior, InitiatorCommand, InitiatorState, PromotionBehavior, PromotionConfig};
use pallas_network2::{Behavior, PeerId};

fn pid(n: u16) -> PeerId { PeerId { host: format!("10.0.0.{n}"), port: 3001 } }

fn report(p: &PromotionBehavior, max_peers: usize) -> bool {
    let sets = [("cold", &p.cold_peers), ("warm", &p.warm_peers), ("hot", &p.hot_peers), ("banned", &p.banned_peers)];
    let mut bad = false;
    for i in 0..4 { for j in (i + 1)..4 {
        let common: Vec<_> = sets[i].1.intersection(sets[j].1).collect();
        if !common.is_empty() { println!("VIOLATED: {} and {} share {:?}", sets[i].0, sets[j].0, common); bad = true; }
    } }
    let total = p.cold_peers.len() + p.warm_peers.len() + p.hot_peers.len();
    println!("cold={} warm={} hot={} banned={} total={} max_peers={}", p.cold_peers.len(), p.warm_peers.len(), p.hot_peers.len(), p.banned_peers.len(), total, max_peers);
    if total > max_peers { println!("VIOLATED: total tracked peers {total} exceeds max_peers {max_peers}"); bad = true; }
    bad
}

#[tokio::main(flavor = "current_thread")]
async fn main() {
    let case = std::env::args().nth(1).unwrap_or_default();
    let bad = match case.as_str() {
        "rediscover_warm" => {
            let mut b = InitiatorBehavior::default();
            b.execute(InitiatorCommand::IncludePeer(pid(1)));
            b.execute(InitiatorCommand::Housekeeping);
            println!("after include + housekeeping: warm contains peer = {}", b.promotion.warm_peers.contains(&pid(1)));
            b.execute(InitiatorCommand::IncludePeer(pid(1)));
            report(&b.promotion, 100)
        }
        "demote_untracked" => {
            let mut p = PromotionBehavior::new(PromotionConfig { max_peers: 1, max_warm_peers: 1, max_hot_peers: 1, max_error_count: 1 });
            let mut s = InitiatorState::new();
            p.on_peer_discovered(&pid(1), &mut s);
            let mut s2 = InitiatorState::new();
            p.demote_peer(&pid(2), &mut s2);
            let bad = report(&p, 1);
            let r = std::panic::catch_unwind(std::panic::AssertUnwindSafe(|| p.peer_deficit()));
            match r { Ok(d) => println!("peer_deficit() = {d}"), Err(_) => println!("VIOLATED: peer_deficit() panicked (subtraction overflow)") }
            bad
        }
        "ban_command" => {
            use futures::StreamExt;
            use pallas_network2::{BehaviorOutput, InterfaceCommand};
            let mut b = InitiatorBehavior::default();
            b.execute(InitiatorCommand::IncludePeer(pid(1)));
            b.execute(InitiatorCommand::BanPeer(pid(1)));
            b.execute(InitiatorCommand::Housekeeping);
            let waker = futures::task::noop_waker();
            let mut cx = std::task::Context::from_waker(&waker);
            let mut bad = false;
            while let std::task::Poll::Ready(Some(o)) = b.poll_next_unpin(&mut cx) {
                if let BehaviorOutput::InterfaceCommand(InterfaceCommand::Connect(p)) = o {
                    println!("VIOLATED: Connect({p}) emitted after BanPeer({p})");
                    bad = true;
                }
            }
            println!("banned set contains peer = {}", b.promotion.banned_peers.contains(&pid(1)));
            report(&b.promotion, 100) || bad
        }
        _ => { eprintln!("unknown case"); std::process::exit(2) }
    };
    std::process::exit(if bad { 1 } else { 0 });
}
