//! replay for C24: `replay_c24 <case>` applies one (state, message) pair to the real pallas-network2 state
//! machine and compares with the Ouroboros specification's verdict; exit 1 if they disagree.
use pallas_network2::protocol::{keepalive, peersharing, txsubmission};

fn verdict<T: std::fmt::Debug, E: std::fmt::Debug>(what: &str, r: Result<T, E>, expect: &str, ok: impl Fn(&T) -> bool) -> bool {
    let good = match &r { Ok(s) => ok(s), Err(_) => false };
    println!("{what}: real code returns {:?}; specification: {expect} -> {}", r, if good { "conforms" } else { "VIOLATED" });
    good
}

fn main() {
    let case = std::env::args().nth(1).unwrap_or_default();
    let good = match case.as_str() {
        "keepalive.client_done" => verdict("keepalive StClient + MsgDone",
            keepalive::State::default().apply(&keepalive::Message::Done), "accepted, next StDone",
            |s| matches!(s, keepalive::State::Done)),
        "peersharing.idle_done" => verdict("peersharing StIdle + MsgDone",
            peersharing::State::default().apply(&peersharing::Message::Done), "accepted, next StDone",
            |s| matches!(s, peersharing::State::Done)),
        "txsubmission.idle_request_nonblocking" => verdict("txsubmission StIdle + MsgRequestTxIds(non-blocking)",
            txsubmission::State::Idle.apply(&txsubmission::Message::RequestTxIds(false, 0, 1)), "accepted, next StTxIds(NonBlocking)",
            |s| matches!(s, txsubmission::State::TxIdsNonBlocking)),
        "txsubmission.blocking_reply_returns_to_idle" => verdict("txsubmission StTxIds(Blocking) + MsgReplyTxIds",
            txsubmission::State::TxIdsBlocking.apply(&txsubmission::Message::ReplyTxIds(vec![])), "accepted, next StIdle",
            |s| matches!(s, txsubmission::State::Idle)),
        "txsubmission.nonblocking_reply_returns_to_idle" => verdict("txsubmission StTxIds(NonBlocking) + MsgReplyTxIds",
            txsubmission::State::TxIdsNonBlocking.apply(&txsubmission::Message::ReplyTxIds(vec![])), "accepted, next StIdle",
            |s| matches!(s, txsubmission::State::Idle)),
        "txsubmission.blocking_done" => verdict("txsubmission StTxIds(Blocking) + MsgDone",
            txsubmission::State::TxIdsBlocking.apply(&txsubmission::Message::Done), "accepted, next StDone",
            |s| matches!(s, txsubmission::State::Done)),
        "txsubmission.txs_reply_returns_to_idle" => verdict("txsubmission StTxs + MsgReplyTxs",
            txsubmission::State::Txs(vec![]).apply(&txsubmission::Message::ReplyTxs(vec![])), "accepted, next StIdle",
            |s| matches!(s, txsubmission::State::Idle)),
        _ => { eprintln!("unknown case"); std::process::exit(2) }
    };
    std::process::exit(if good { 0 } else { 1 });
}
