//! replay for C44: maps a Plutus integer through the real pallas-utxorpc mappers (v1alpha and v1beta) and compares the
//! mathematical value of the result with the input. Argument: the integer as decimal (default 9223372036854775808 = 2^63).
//! exit 1 if the mapped value differs (truncation).
use pallas_primitives::alonzo::BigInt;
use pallas_utxorpc::{LedgerContext, TxoRef, UtxoMap};

#[derive(Clone)]
struct NoLedger;
impl LedgerContext for NoLedger {
    fn get_utxos(&self, _refs: &[TxoRef]) -> Option<UtxoMap> { None }
    fn get_slot_timestamp(&self, _slot: u64) -> Option<u64> { None }
}

fn be_value(b: &[u8]) -> i128 { b.iter().fold(0i128, |a, x| (a << 8) | *x as i128) }

fn main() {
    let n: i128 = std::env::args().nth(1).unwrap_or_else(|| "9223372036854775808".to_string()).parse().unwrap();
    let int = pallas_codec::utils::Int::try_from(n).expect("within the CBOR integer range -2^64 .. 2^64-1");
    let x = BigInt::Int(int);
    let mut bad = false;
    {
        use utxorpc_spec_a::big_int::BigInt as B;
        let m = pallas_utxorpc::v1alpha::Mapper::new(NoLedger);
        let out = m.map_plutus_bigint(&x);
        let v = match out.big_int { Some(B::Int(i)) => i as i128, Some(B::BigUInt(b)) => be_value(&b), Some(B::BigNInt(b)) => -1 - be_value(&b), None => panic!("none") };
        println!("v1alpha: input {n} -> mapped value {v}");
        if v != n { println!("VIOLATED: the Plutus integer was not represented exactly (truncated)"); bad = true; }
    }
    {
        use utxorpc_spec_b::big_int::BigInt as B;
        let m = pallas_utxorpc::v1beta::Mapper::new(NoLedger);
        let out = m.map_plutus_bigint(&x);
        let v = match out.big_int { Some(B::Int(i)) => i as i128, Some(B::BigUInt(b)) => be_value(&b), Some(B::BigNInt(b)) => -1 - be_value(&b), None => panic!("none") };
        println!("v1beta:  input {n} -> mapped value {v}");
        if v != n { println!("VIOLATED: the Plutus integer was not represented exactly (truncated)"); bad = true; }
    }
    std::process::exit(if bad { 1 } else { 0 });
}
use pallas_utxorpc::v1alpha::spec::cardano as utxorpc_spec_a;
use pallas_utxorpc::v1beta::spec::cardano as utxorpc_spec_b;
