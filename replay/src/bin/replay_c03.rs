//! replay for C03: decode the given CBOR bytes (hex) with the real pallas-codec helper wrappers and re-encode.
//!   replay_c03 anyuint <hex>      default 1805 : the non-minimal encoding of 5 (one-byte argument form)
//! exit 1 if the re-encoding differs from the accepted input bytes.
use pallas_codec::minicbor;
use pallas_codec::utils::AnyUInt;
fn main() {
    let kind = std::env::args().nth(1).unwrap_or_else(|| "anyuint".into());
    let hexs = std::env::args().nth(2).unwrap_or_else(|| "1805".into());
    let bytes = hex::decode(&hexs).unwrap();
    match kind.as_str() {
        "anyuint" => {
            let mut d = minicbor::Decoder::new(&bytes);
            match d.decode::<AnyUInt>() {
                Ok(v) => {
                    let n = d.position();
                    let out = minicbor::to_vec(&v).unwrap();
                    println!("decode({hexs}) = {v:?} consuming {n} byte(s); re-encoded = {}", hex::encode(&out));
                    if out != bytes[..n] {
                        println!("VIOLATED: the length-preserving unsigned integer did not re-encode to the accepted bytes");
                        std::process::exit(1);
                    }
                }
                Err(e) => println!("decode({hexs}) = Err({e})"),
            }
        }
        _ => {
            eprintln!("unknown kind");
            std::process::exit(2)
        }
    }
}
