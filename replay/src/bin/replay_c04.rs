//! replay for C04: decode the given CBOR bytes (hex) as PositiveCoin / NonZeroInt with the real pallas-codec;
//! exit 1 if a wrapper holding zero comes out. Default input: `00` (unsigned 0).
use pallas_codec::minicbor;
use pallas_codec::utils::{NonZeroInt, PositiveCoin};
fn main() {
    let hexs = std::env::args().nth(1).unwrap_or_else(|| "00".to_string());
    let bytes = hex::decode(&hexs).unwrap();
    let mut bad = false;
    match minicbor::decode::<PositiveCoin>(&bytes) {
        Ok(c) => { println!("PositiveCoin decode({hexs}) = Ok({})", u64::from(c)); if u64::from(c) == 0 { println!("VIOLATED: a positive-coin wrapper holds zero"); bad = true; } }
        Err(e) => println!("PositiveCoin decode({hexs}) = Err({e})"),
    }
    match minicbor::decode::<NonZeroInt>(&bytes) {
        Ok(c) => { println!("NonZeroInt decode({hexs}) = Ok({})", i64::from(c)); if i64::from(c) == 0 { println!("VIOLATED: a non-zero-int wrapper holds zero"); bad = true; } }
        Err(e) => println!("NonZeroInt decode({hexs}) = Err({e})"),
    }
    std::process::exit(if bad { 1 } else { 0 });
}
