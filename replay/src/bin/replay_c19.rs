//! replay for C19: a valid mainnet Byron address with ONE BIT of its CRC32 (or of its payload) flipped is parsed with
//! the real pallas-addresses entry points (raw bytes, hex, base58). exit 1 if any of them yields an address.
use pallas_addresses::{byron::ByronAddress, Address};
use pallas_codec::minicbor;

fn main() {
    let v = "DdzFFzCqrht7PQiAhzrn6rNNoADJieTWBt8KeK9BZdUsGyX9ooYD9NpMCTGjQoUKcHN47g8JMXhvKogsGpQHtiQ65fZwiypjrC6d3a4Q";
    let good = ByronAddress::from_base58(v).expect("valid vector");
    let which = std::env::args().nth(1).unwrap_or_else(|| "crc".to_string());
    let mut bad_addr = good.clone();
    match which.as_str() {
        "crc" => bad_addr.crc ^= 1,
        "payload" => { let mut p: Vec<u8> = bad_addr.payload.0.to_vec(); let n = p.len(); p[n - 1] ^= 0x10; bad_addr = ByronAddress::new(&p, good.crc); }
        _ => { eprintln!("unknown case"); std::process::exit(2) }
    }
    let bytes = minicbor::to_vec(&bad_addr).unwrap();
    println!("valid address crc={:#010x}; corrupted {which}: crc field={:#010x}", good.crc, bad_addr.crc);
    let mut bad = false;
    let r1 = ByronAddress::from_bytes(&bytes);
    println!("ByronAddress::from_bytes -> {}", if r1.is_ok() { "Ok(address)" } else { "Err" });
    bad |= r1.is_ok();
    let r2 = Address::from_bytes(&bytes);
    println!("Address::from_bytes      -> {}", if r2.is_ok() { "Ok(address)" } else { "Err" });
    bad |= r2.is_ok();
    let r3 = Address::from_hex(&hex::encode(&bytes));
    println!("Address::from_hex        -> {}", if r3.is_ok() { "Ok(address)" } else { "Err" });
    bad |= r3.is_ok();
    let b58 = base58_encode(&bytes);
    let r4 = ByronAddress::from_base58(&b58);
    println!("ByronAddress::from_base58-> {}", if r4.is_ok() { "Ok(address)" } else { "Err" });
    bad |= r4.is_ok();
    let r5: Result<Address, _> = b58.parse();
    println!("Address::from_str(base58)-> {}", if r5.is_ok() { "Ok(address)" } else { "Err" });
    bad |= r5.is_ok();
    if bad { println!("VIOLATED: an address whose CRC32 does not match its payload was accepted"); }
    std::process::exit(if bad { 1 } else { 0 });
}

fn base58_encode(b: &[u8]) -> String {
    // via the address type itself (to_base58 re-encodes the struct: payload + crc as given)
    let a: ByronAddress = minicbor::decode(b).unwrap();
    a.to_base58()
}
