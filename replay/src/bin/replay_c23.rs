//! replay for C23 against the real pallas-network crate (original stack); exit 1 if the agent deviates from the
//! mini-protocol state machine. Two plexers are connected over a loopback TCP socket; the peer side is driven through a raw
//! ChannelBuffer so that it can send exactly the message the case needs.
//!   replay_c23 txmonitor_release            : acquire, then Client::release() — the specification permits MsgRelease in StAcquired
//!   replay_c23 handshake_client_query_reply : propose, receive MsgQueryReply — the specification prescribes StDone afterwards
//!   replay_c23 handshake_server_query_reply : server in StConfirm sends MsgQueryReply — the specification permits it
use pallas_network::miniprotocols::{handshake, txmonitor};
use pallas_network::multiplexer::{Bearer, ChannelBuffer, Plexer};
use std::net::{Ipv4Addr, SocketAddrV4};
use tokio::net::TcpListener;

async fn pair() -> (Plexer, Plexer) {
    let listener = TcpListener::bind(SocketAddrV4::new(Ipv4Addr::LOCALHOST, 0)).await.unwrap();
    let addr = listener.local_addr().unwrap();
    let acc = tokio::spawn(async move { Bearer::accept_tcp(&listener).await.unwrap().0 });
    let active = Bearer::connect_tcp(addr).await.unwrap();
    let passive = acc.await.unwrap();
    (Plexer::new(active), Plexer::new(passive))
}

#[tokio::main(flavor = "multi_thread", worker_threads = 2)]
async fn main() {
    let case = std::env::args().nth(1).unwrap_or_default();
    let (mut a, mut p) = pair().await;
    let bad = match case.as_str() {
        "txmonitor_release" => {
            let cch = a.subscribe_client(9);
            let sch = p.subscribe_server(9);
            let _ra = a.spawn();
            let _rp = p.spawn();
            let mut client = txmonitor::Client::new(cch);
            let mut peer = ChannelBuffer::new(sch);
            let srv = tokio::spawn(async move {
                let m: txmonitor::Message = peer.recv_full_msg().await.unwrap();
                println!("peer received {m:?}");
                peer.send_msg_chunks(&txmonitor::Message::Acquired(7)).await.unwrap();
                peer
            });
            let slot = client.acquire().await;
            println!("client.acquire() = {slot:?}; state = {:?}", client.state());
            let _peer = srv.await.unwrap();
            let r = client.release().await;
            println!("client.release() = {r:?}; state = {:?}", client.state());
            if r.is_err() || *client.state() != txmonitor::State::Idle {
                println!("VIOLATED: MsgRelease is permitted in StAcquired and leads to StIdle, the client refused to send it");
                true
            } else { false }
        }
        "handshake_client_query_reply" => {
            let cch = a.subscribe_client(0);
            let sch = p.subscribe_server(0);
            let _ra = a.spawn();
            let _rp = p.spawn();
            let mut client = handshake::N2NClient::new(cch);
            let mut peer = ChannelBuffer::new(sch);
            let table = handshake::n2n::VersionTable::v7_and_above_with_query(764824073, true);
            let reply = handshake::n2n::VersionTable::v7_and_above(764824073);
            let srv = tokio::spawn(async move {
                let m: handshake::Message<handshake::n2n::VersionData> = peer.recv_full_msg().await.unwrap();
                println!("peer received a {} message", match m { handshake::Message::Propose(_) => "Propose", _ => "other" });
                peer.send_msg_chunks(&handshake::Message::QueryReply(reply)).await.unwrap();
                peer
            });
            client.send_propose(table).await.unwrap();
            let c = client.recv_while_confirm().await;
            let _peer = srv.await.unwrap();
            println!("recv_while_confirm() is QueryReply: {}; state = {:?}", matches!(c, Ok(handshake::Confirmation::QueryReply(_))), client.state());
            if *client.state() != handshake::State::Done {
                println!("VIOLATED: after MsgQueryReply the specification prescribes StDone, the client is still in {:?}", client.state());
                true
            } else { false }
        }
        "handshake_server_query_reply" => {
            let cch = a.subscribe_client(0);
            let sch = p.subscribe_server(0);
            let _ra = a.spawn();
            let _rp = p.spawn();
            let mut client = handshake::N2NClient::new(cch);
            let mut server = handshake::N2NServer::new(sch);
            let table = handshake::n2n::VersionTable::v7_and_above_with_query(764824073, true);
            client.send_propose(table).await.unwrap();
            let got = server.receive_proposed_versions().await;
            println!("server.receive_proposed_versions() ok = {}; state = {:?}", got.is_ok(), server.state());
            let reply = handshake::n2n::VersionTable::v7_and_above(764824073);
            let r = server.send_message(&handshake::Message::QueryReply(reply)).await;
            println!("server.send_message(QueryReply) = {:?}", r.as_ref().map_err(|e| e.to_string()));
            if r.is_err() {
                println!("VIOLATED: MsgQueryReply is permitted to the server in StConfirm, the agent refused to send it");
                true
            } else { false }
        }
        _ => { eprintln!("unknown case"); std::process::exit(2) }
    };
    std::process::exit(if bad { 1 } else { 0 });
}
