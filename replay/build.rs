// Extracts test scaffolding (protocol-parameter constructors) verbatim from /repo/pallas-validate/tests so the
// replay programs use the same environment as the repository's own tests.
use std::{env, fs, path::Path};

fn extract_fn(src: &str, name: &str) -> String {
    let start = src.find(&format!("fn {name}(")).expect("fn not found");
    let open = start + src[start..].find('{').unwrap();
    let mut depth = 0usize;
    for (i, c) in src[open..].char_indices() {
        match c { '{' => depth += 1, '}' => { depth -= 1; if depth == 0 { return src[start..open + i + 1].to_string(); } } _ => {} }
    }
    panic!("unterminated fn");
}

fn main() {
    let out = env::var("OUT_DIR").unwrap();
    let p = "/repo/pallas-validate/tests/conway.rs";
    println!("cargo:rerun-if-changed={p}");
    let src = fs::read_to_string(p).unwrap();
    let f = extract_fn(&src, "mk_mainnet_params_epoch_380");
    fs::write(Path::new(&out).join("conway_params.rs"), format!("pub {f}\n")).unwrap();

    // Alonzo Plutus fixture scaffolding: the body of tests/alonzo.rs::successful_mainnet_tx_with_plutus_script,
    // turned into `fn run_alonzo2(tx_bytes: &[u8]) -> Result<(), String>` (the transaction bytes become a parameter,
    // the final `match` becomes the return value); its protocol parameters constructor is copied verbatim.
    let p2 = "/repo/pallas-validate/tests/alonzo.rs";
    println!("cargo:rerun-if-changed={p2}");
    let src2 = fs::read_to_string(p2).unwrap();
    let mut f2 = extract_fn(&src2, "successful_mainnet_tx_with_plutus_script");
    f2 = f2.replace("fn successful_mainnet_tx_with_plutus_script()", "pub fn run_alonzo2(tx_bytes: &[u8]) -> Result<(), String>");
    f2 = f2.replace("let cbor_bytes: Vec<u8> = cbor_to_bytes(include_str!(\"../../test_data/alonzo2.tx\"));", "let cbor_bytes: Vec<u8> = tx_bytes.to_vec();");
    let k = f2.find("match validate_txs(").expect("validate call");
    let call_end = k + f2[k..].find('{').unwrap();
    let call = f2[k + "match ".len()..call_end].trim().to_string();
    f2 = format!("{}{}.map_err(|e| format!(\"{{e:?}}\"))\n}}", &f2[..k], call);
    let pp = extract_fn(&src2, "mk_params_epoch_300");
    fs::write(Path::new(&out).join("alonzo2_scaffold.rs"), format!("pub {pp}\n{f2}\n")).unwrap();
}
